(* C02 for set objects that are reused and whose element objects change after the add: the
   well-formedness theorems for ANY set state SendSet can be given (InvM + tshape, which
   Proofs/ExpObj_lemmas.v shows for every object-level history), and the template refresh. *)
From Coq Require Import List Bool Arith NArith ZArith Lia String.
From Coq Require Import ZifyN ZifyNat ZifyBool.
From Coq.Strings Require Import Byte.
From Verif.Base Require Import Bytes Outcome.
From Verif.Model Require Import IE Codec Record SetB Msg Exporter ExpObj Rfc7011.
From Verif.Proofs Require Import Bytes_lemmas Codec_lemmas SetB_lemmas Exporter_lemmas C08_lemmas
  C09_lemmas Rfc_lemmas RfcData_lemmas ExpObj_lemmas.
Import ListNotations.
Local Open Scope N_scope.
Local Notation length := List.length.

(* ---- a transmitted data set: every record passed the sanity check ---- *)
Lemma wire_data_bufs st s t bytes :
  r_wire (send_set cur st s t) = Some bytes -> s_type s = SData ->
  forall r, In r (s_recs s) -> exists b, rec_buffer_e r = Ok (b, 0%nat).
Proof.
  intros Hw Ety. unfold send_set in Hw. rewrite Ety in Hw.
  cbn [cur fx_register with_seq with_tpls x_obs x_seq x_tpls x_udp] in Hw.
  destruct (check_set cur (x_tpls st) s) as [[]| | |] eqn:Ec; cbn [r_wire] in Hw; try discriminate.
  unfold check_set in Ec. cbn [cur fx_setid] in Ec.
  destruct (Nat.ltb (length (s_hdr s)) 4); [discriminate|].
  destruct (lookup_tpl (x_tpls st) (hdr_id s)) as [[ies ml]|] eqn:El; [|discriminate].
  pose proof (check_all_ok _ _ _ Ec) as F. rewrite Forall_forall in F.
  intros r Hr. destruct (F r Hr) as [_ Hs]. destruct (sanity_ok _ _ Hs) as (? & ? & b & _ & _ & Hb). eauto.
Qed.

(* the repaired sanity check lets a data record pass only if its current values fill exactly the
   length it was added with: the transmitted set is then one whose records "still have the
   length of their values" (Inv), whatever happened to the element objects in between *)
Lemma sent_data_good st s t bytes :
  r_wire (send_set cur st s t) = Some bytes -> s_type s = SData ->
  forall r, In r (s_recs s) -> good_rec r.
Proof.
  intros Hw Ty r Hr. destruct (wire_data_bufs st s t bytes Hw Ty r Hr) as [b Eb].
  destruct r as [tid fc els buf m|tid fc els len]; [exact I|].
  rewrite rec_buffer_e_data in Eb. cbn [good_rec]. eapply get_buffer_n_noerr; eassumption.
Qed.

Lemma InvM_good_Inv s : InvM s -> (forall r, In r (s_recs s) -> good_rec r) -> Inv s.
Proof.
  intros [A B] G. split; [exact A|]. split; [exact B|].
  apply Forall_forall. intros r Hr. apply G. rewrite s_recs_rev. now apply -> in_rev.
Qed.

Theorem wellformed_data_set_m widths st s t bytes ws :
  InvM s -> st_wf st -> r_wire (send_set cur st s t) = Some bytes ->
  s_type s = SData -> 256 <= hdr_id s -> widths (hdr_id s) = Some ws -> Exists (fun w => w <> 0) ws ->
  Forall (data_rec_ok ws) (s_recs s) ->
  exists d, expected_data s = Some d /\
  rfc_parse widths bytes =
    Some (mkWM 10 (blen bytes) (t mod 2 ^ 32) (seq_next (x_seq st) s mod 2 ^ 32) (x_obs st mod 2 ^ 32)
               (hdr_id s) (blen bytes - 16) (WData d)).
Proof.
  intros HI W Hw Ty Hid Hws X F.
  pose proof (InvM_good_Inv s HI (sent_data_good st s t bytes Hw Ty)) as HInv.
  exact (wellformed_data_set_tpl_s widths st s t bytes ws HInv W Hw Hid Hws X F).
Qed.

(* the headline for any set state: frame + template records + data records *)
Definition c02_scope_m (widths : N -> option (list N)) (s : setb) : Prop :=
  (hdr_id s = 2 /\ Forall tpl_rec_ok (s_recs s)) \/
  (s_type s = SData /\ 256 <= hdr_id s /\
   exists ws, widths (hdr_id s) = Some ws /\ Exists (fun w => w <> 0) ws /\
              Forall (data_rec_ok ws) (s_recs s)).

Theorem wellformed_message_m widths st s t bytes :
  InvM s -> (forall r, In r (s_recs s) -> tshape r) ->
  st_wf st -> r_wire (send_set cur st s t) = Some bytes -> c02_scope_m widths s ->
  exists body, expected_body s = Some body /\
  rfc_parse widths bytes =
    Some (mkWM 10 (blen bytes) (t mod 2 ^ 32) (seq_next (x_seq st) s mod 2 ^ 32) (x_obs st mod 2 ^ 32)
               (hdr_id s) (blen bytes - 16) body).
Proof.
  intros HI TS W Hw [[Hid F]|(Ty & Hid & ws & Hws & X & F)].
  - exists (WTemplates (expected_templates s)). unfold expected_body. rewrite Hid. split; [reflexivity|].
    apply (wellformed_template_set_s widths st s t bytes HI TS W Hw Hid F).
  - destruct (wellformed_data_set_m widths st s t bytes ws HI W Hw Ty Hid Hws X F) as (d & Ed & P).
    exists (WData d). unfold expected_body. rewrite Ed.
    destruct (N.eqb_spec (hdr_id s) 2); [lia|]. split; [reflexivity|exact P].
Qed.

(* ---- the template refresh ---- *)
Lemma zero_value_empty d v : zero_value d = Ok v -> is_empty v = true.
Proof. destruct d; cbn [zero_value]; intros [= <-]; reflexivity. Qed.

Lemma zero_els_spec ies : forall els, zero_els ies = Ok els ->
  map fst els = ies /\ forallb (fun ev => is_empty (snd ev)) els = true.
Proof.
  induction ies as [|e r IH]; intros els H; cbn [zero_els] in H.
  - injection H as <-. split; reflexivity.
  - destruct (zero_value (ie_dt e)) as [v| | |] eqn:Ev; cbn [obind] in H; try discriminate.
    destruct (zero_els r) as [t| | |] eqn:Et; cbn [obind] in H; try discriminate.
    injection H as <-. destruct (IH t eq_refl) as [A B]. cbn [map fst forallb snd].
    rewrite A, B, (zero_value_empty _ _ Ev). split; reflexivity.
Qed.

(* the set MakeTemplateSet builds *)
Definition tpl_set (id : N) (els : list (ie * value)) : setb :=
  mkSet (be 2 2 ++ [x00; x00]) STemplate
        [TRec (u16 id) (u16 (nels els)) els (be 2 id ++ be 2 (u16 (nels els)) ++ specs els) (minlen_of els 0)]
        (4 + blen (be 2 id ++ be 2 (u16 (nels els)) ++ specs els)).

Lemma make_template_set_spec id ies s :
  make_template_set id ies = Ok s ->
  exists els, map fst els = ies /\ s = tpl_set id els.
Proof.
  unfold make_template_set.
  assert (P : step new_set (OPrepare STemplate id) = (mkSet (be 2 2 ++ [x00; x00]) STemplate [] 4, Ok tt))
    by (vm_compute; reflexivity).
  rewrite P. cbn [obind snd fst]. destruct (zero_els ies) as [els| | |] eqn:Ez; cbn [obind]; try discriminate.
  destruct (zero_els_spec ies els Ez) as [Ef Ee].
  cbn [step s_type build_record]. rewrite (tpl_record_v1_spec els id Ee). cbn [snd fst obind].
  intros [= <-]. exists els. split; [exact Ef|]. unfold tpl_set. cbn [s_hdr s_type s_rrecs s_len rec_len].
  reflexivity.
Qed.

Lemma tpl_set_InvM id els : InvM (tpl_set id els).
Proof. split; [reflexivity|]. unfold tpl_set, sum_rec_len. cbn [s_len s_rrecs fold_right rec_len]. lia. Qed.
Lemma tpl_set_tshape id els r : In r (s_recs (tpl_set id els)) -> tshape r.
Proof.
  unfold tpl_set, s_recs. cbn [s_rrecs rev_append]. intros [<-|[]]. cbn [tshape].
  rewrite tpl_buf_u16. unfold tpl_buf. reflexivity.
Qed.
Lemma tpl_set_hdr_id id els : hdr_id (tpl_set id els) = 2.
Proof. reflexivity. Qed.

(* the registered templates are within what C02 speaks about *)
Definition tpl_entry_ok (p : N * (list ie * N)) : Prop :=
  256 <= fst p < 65536 /\ N.of_nat (length (fst (snd p))) < 65536 /\ Forall wf_ie_spec (fst (snd p)).

Lemma tpl_set_rec_ok id els :
  256 <= id < 65536 -> N.of_nat (length (map fst els)) < 65536 -> Forall wf_ie_spec (map fst els) ->
  Forall tpl_rec_ok (s_recs (tpl_set id els)).
Proof.
  intros Hi Hn Hf. unfold tpl_set, s_recs. cbn [s_rrecs rev_append]. constructor; [|constructor].
  unfold tpl_rec_ok. cbn [rec_is_data rec_tid rec_els]. rewrite map_length in Hn.
  split; [reflexivity|]. split; [unfold u16; rewrite N.mod_small; lia|]. split; [exact Hn|].
  rewrite Forall_map in Hf. exact Hf.
Qed.

(* one refresh message: the independent parser reads a template set with the one record
   (id, one specifier per element of the registered template), the unchanged sequence number *)
Definition refresh_msg_ok (widths : N -> option (list N)) (st : exp) (t : N) (id : N) (ies : list ie) (bytes : list byte) : Prop :=
  rfc_parse widths bytes =
    Some (mkWM 10 (blen bytes) (t mod 2 ^ 32) (x_seq st mod 2 ^ 32) (x_obs st mod 2 ^ 32)
               2 (blen bytes - 16) (WTemplates [(id, map rfc_fspec ies)])).

Lemma seq_next_template st s : st_wf st -> s_type s = STemplate -> seq_next (x_seq st) s = x_seq st.
Proof. intros W Ty. unfold seq_next, data_count. rewrite Ty, N.add_0_r. symmetry. exact W. Qed.

Lemma refresh_one widths st t id ies s bytes :
  st_wf st -> 256 <= id < 65536 -> N.of_nat (length ies) < 65536 -> Forall wf_ie_spec ies ->
  make_template_set id ies = Ok s -> r_wire (send_set cur st s t) = Some bytes ->
  refresh_msg_ok widths st t id ies bytes.
Proof.
  intros W Hi Hn Hf Hm Hw. destruct (make_template_set_spec id ies s Hm) as (els & Ef & ->).
  subst ies.
  pose proof (wellformed_template_set_s widths st (tpl_set id els) t bytes (tpl_set_InvM id els)
                (tpl_set_tshape id els) W Hw (tpl_set_hdr_id id els) (tpl_set_rec_ok id els Hi Hn Hf)) as P.
  unfold refresh_msg_ok. rewrite P. rewrite (seq_next_template st (tpl_set id els) W eq_refl).
  unfold expected_templates, tpl_set, s_recs. cbn [s_rrecs rev_append map rec_tid rec_els].
  assert (u16 id = id) as -> by (unfold u16; apply N.mod_small; lia). rewrite map_map. reflexivity.
Qed.

(* sending the set of a registered template leaves the exporter state as it was *)
Lemma lookup_in m id p : lookup_tpl m id = Some p -> In (id, p) m.
Proof.
  unfold lookup_tpl. destruct (find _ m) as [[k q]|] eqn:E; [|discriminate].
  intros [= <-]. apply find_some in E as [Hin Hk]. cbn [fst] in Hk. apply N.eqb_eq in Hk. now subst k.
Qed.

Lemma refresh_send_state st t id els :
  st_wf st -> 256 <= id < 65536 -> (exists p, lookup_tpl (x_tpls st) id = Some p) ->
  forall n, r_res (send_set cur st (tpl_set id els) t) = Ok n -> r_st (send_set cur st (tpl_set id els) t) = st.
Proof.
  intros W Hi [p Hl] n. unfold send_set. cbn [tpl_set s_type].
  cbn [cur fx_register with_seq with_tpls x_obs x_seq x_tpls x_udp].
  destruct (create_msg _ _ _ _) as [bytes| | |]; cbn [r_res r_st]; try discriminate.
  destruct (write_ok _ _); cbn [r_res r_st]; try discriminate.
  assert (U : u16 id = id) by (unfold u16; apply N.mod_small; lia).
  unfold s_recs, tpl_set. cbn [s_rrecs rev_append register_all rec_minlen rec_tid rec_els].
  unfold update_template. rewrite U, Hl. cbn [r_res r_st].
  intros _. destruct st; reflexivity.
Qed.

(* The refresh as a whole: if the map of registered templates is in scope, every message the
   refresh writes is a well-formed template message for a registered template; the messages
   are, in the order of the map, those of a prefix of the map (all of it unless a send failed),
   each depending on its own entry only - so another iteration order only permutes them; the
   exporter state (sequence number, templates) is what it was. *)
Theorem refresh_messages widths t : forall m st ss,
  st_wf st -> Forall tpl_entry_ok m -> (forall p, In p m -> In p (x_tpls st)) ->
  make_sets m = Ok ss ->
  let xs := send_all cur st ss t in
  exists k,
    Forall2 (fun p x => forall bytes, r_wire x = Some bytes -> refresh_msg_ok widths st t (fst p) (fst (snd p)) bytes)
            (firstn k m) xs /\
    (Forall (fun x => exists n, r_res x = Ok n) xs -> k = length m /\ last_state st xs = st).
Proof.
  induction m as [|[id [ies ml]] r IH]; intros st ss W F Sub Hm xs.
  - cbn [make_sets] in Hm. injection Hm as <-. exists 0%nat. split; [constructor|]. auto.
  - cbn [make_sets] in Hm.
    destruct (make_template_set id ies) as [s| | |] eqn:Es; cbn [obind] in Hm; try discriminate.
    destruct (make_sets r) as [ss'| | |] eqn:Er; cbn [obind] in Hm; try discriminate.
    injection Hm as <-. inversion F as [|? ? (Hi & Hn & Hf) F']; subst. cbn [fst snd] in *.
    subst xs. cbn [send_all].
    assert (M1 : forall bytes, r_wire (send_set cur st s t) = Some bytes -> refresh_msg_ok widths st t id ies bytes).
    { intros bytes Hw. eapply refresh_one; eassumption. }
    destruct (r_res (send_set cur st s t)) as [n|e| |] eqn:R.
    + assert (Est : r_st (send_set cur st s t) = st).
      { destruct (make_template_set_spec id ies s Es) as (els & _ & ->).
        eapply refresh_send_state; try eassumption.
        assert (Hin : In (id, (ies, ml)) (x_tpls st)) by (apply Sub; now left).
        unfold lookup_tpl. destruct (find (fun p => fst p =? id) (x_tpls st)) as [q|] eqn:Ef; [eauto|].
        exfalso. apply (find_none _ _ Ef) in Hin. cbn [fst] in Hin. now rewrite N.eqb_refl in Hin. }
      rewrite Est. destruct (IH st ss' W F' (fun p Hp => Sub p (or_intror Hp)) eq_refl) as (k & F2 & Hall).
      exists (S k). cbn [firstn]. split; [constructor; [exact M1|exact F2]|].
      intros Fa. inversion Fa as [|? ? _ Fa']; subst. destruct (Hall Fa') as [-> L]. split; [reflexivity|].
      unfold last_state in *. cbn [rev].
      destruct (rev (send_all cur st ss' t)) as [|y l] eqn:Erev; cbn [app]; [exact Est|exact L].
    + exists 1%nat. cbn [firstn]. split; [constructor; [exact M1|constructor]|].
      intros Fa. inversion Fa as [|? ? [n Hn'] _]; subst. congruence.
    + exists 1%nat. cbn [firstn]. split; [constructor; [exact M1|constructor]|].
      intros Fa. inversion Fa as [|? ? [n Hn'] _]; subst. congruence.
    + exists 1%nat. cbn [firstn]. split; [constructor; [exact M1|constructor]|].
      intros Fa. inversion Fa as [|? ? [n Hn'] _]; subst. congruence.
Qed.

(* ---- whole histories ---- *)
(* what C02 says of one step of an object-level history: a SendSet that writes a message for a
   set in scope writes a well-formed one (the set is the one SendSet saw: whatever was done to
   the set object and to the element objects before); a refresh of a UDP exporter whose
   registered templates are in scope writes, for a prefix of the template map in the model's
   order (all of it if no send fails), one well-formed template message each, and leaves the
   exporter state as it was *)
Definition out_wellformed (widths : N -> option (list N)) (o : gout) : Prop :=
  match o with
  | OSent st s t x =>
      forall bytes, r_wire x = Some bytes -> c02_scope_m widths s ->
      exists body, expected_body s = Some body /\
        rfc_parse widths bytes =
          Some (mkWM 10 (blen bytes) (t mod 2 ^ 32) (seq_next (x_seq st) s mod 2 ^ 32) (x_obs st mod 2 ^ 32)
                     (hdr_id s) (blen bytes - 16) body)
  | ORefresh st t rr =>
      x_udp st = true -> Forall tpl_entry_ok (x_tpls st) ->
      forall xs, rr = Ok xs ->
      exists k,
        Forall2 (fun p x => forall bytes, r_wire x = Some bytes ->
                            refresh_msg_ok widths st t (fst p) (fst (snd p)) bytes)
                (firstn k (x_tpls st)) xs /\
        (Forall (fun x => exists n, r_res x = Ok n) xs -> k = length (x_tpls st) /\ last_state st xs = st)
  | OReconn _ _ => True
  end.

Theorem histories_wellformed widths h : forall w,
  WInv w -> Forall (out_wellformed widths) (grun cur w h).
Proof.
  intros w HW. pose proof (grun_inv h w HW) as F.
  induction F as [|o l O _ IH]; constructor; [|exact IH].
  destruct o as [st s t x|st t rr|st q]; cbn [out_ok out_wellformed] in *.
  - destruct O as (HI & RS & Wst & ->). intros bytes Hw Sc.
    apply (wellformed_message_m widths st s t bytes HI (fun r Hr => proj1 (RS r Hr)) Wst Hw Sc).
  - destruct O as (Wst & ->). intros U Ft xs E. rewrite U in E. unfold refresh in E.
    destruct (make_sets (x_tpls st)) as [ss| | |] eqn:Em; cbn [obind] in E; try discriminate.
    injection E as <-.
    exact (refresh_messages widths t (x_tpls st) st ss Wst Ft (fun p Hp => Hp) Em).
  - exact I.
Qed.
