(* The abstract queue never blocks: from every state satisfying (I1) some pick sequence is
   accepted by the scan (so "for every tie-breaking" in C06/C07 is not vacuous), and it can be
   built by always taking an item that attains the least deadline. *)
From Coq Require Import List Bool NArith ZArith Lia.
From Verif.Base Require Import Outcome.
From Verif.Model Require Import IE KMap Pq Corr Expiry ExpirySpec.
From Verif.Proofs Require Import KMap_lemmas Expiry_lemmas.
Import ListNotations.
Local Open Scope Z_scope.

Definition due_count (now : Z) (q : pq) : nat :=
  List.length (filter (fun it => dl_min (snd it) <=? now) q).

Lemma due_count_remove now p d q : km_find p q = Some d -> dl_min d <= now ->
  (S (due_count now (km_remove p q)) = due_count now q)%nat.
Proof.
  unfold due_count. induction q as [|[k0 d0] q IH]; cbn; [discriminate|].
  destruct (N.eqb_spec k0 p) as [->|NE].
  - intros [= ->] L. apply Z.leb_le in L. rewrite L. reflexivity.
  - intros F L. cbn. destruct (dl_min d0 <=? now); cbn; rewrite <- (IH F L); reflexivity.
Qed.
Lemma due_count_push now p d q : now < dl_min d -> due_count now (pq_push p d q) = due_count now q.
Proof.
  unfold due_count, pq_push, km_push. intros L. rewrite filter_app. cbn.
  apply Z.leb_gt in L. rewrite L. cbn. rewrite app_nil_r. reflexivity.
Qed.

Lemma scan_progress P now fails : wf_params P = true ->
  forall n s cbs, Inv s -> (due_count now (queue s) <= n)%nat ->
  exists picks r, scan_loop Fixed P now fails picks s cbs = Some r.
Proof.
  intros WF. unfold wf_params in WF. apply andb_true_iff in WF. destruct WF as [PA PI].
  apply Z.ltb_lt in PA, PI.
  induction n as [|n IH]; intros s cbs HI Hn.
  - exists []. cbn. destruct (min_deadline (queue s)) as [m|] eqn:M; [|eauto].
    destruct (Z.ltb_spec now m); [eauto|]. exfalso.
    destruct (min_deadline_attained _ _ M) as ([k d] & I & D). unfold deadline in D. cbn in D.
    unfold due_count in Hn.
    assert (Iw : In (k, d) (filter (fun it => dl_min (snd it) <=? now) (queue s))).
    { apply filter_In. split; [assumption|]. cbn. apply Z.leb_le. lia. }
    destruct (filter _ (queue s)); [destruct Iw|cbn in Hn; lia].
  - destruct (min_deadline (queue s)) as [m|] eqn:M; [|exists []; cbn; rewrite M; eauto].
    destruct (Z.ltb_spec now m) as [Lt|Ge]; [exists []; cbn; rewrite M; apply Z.ltb_lt in Lt; rewrite Lt; eauto|].
    destruct (min_deadline_attained _ _ M) as ([p d] & I & D). unfold deadline in D. cbn in D.
    destruct HI as (N1 & N2 & E).
    pose proof (km_In_find _ _ _ N2 I) as Hq.
    assert (Hmin : is_min d (km_remove p (queue s)) = true).
    { unfold is_min. apply forallb_forall. intros it Ii. apply km_In_remove in Ii.
      pose proof (min_deadline_le _ _ M it Ii). destruct (Z.ltb_spec (deadline it) (dl_min d)); [lia|reflexivity]. }
    assert (Hdue : dl_min d <= now) by lia.
    assert (Hbrk : (now <? fst d) && (now <? snd d) = false).
    { apply dl_min_le in Hdue. apply andb_false_iff. destruct Hdue; [left|right]; apply Z.ltb_ge; assumption. }
    destruct (km_find p (flows s)) as [f|] eqn:Hf; [|apply E in Hf; congruence].
    assert (HI : Inv s) by exact (conj N1 (conj N2 E)).
    pose proof (due_count_remove now p d (queue s) Hq Hdue) as DC.
    (* continue with the state after this pick *)
    assert (Cont : forall s1 cbs1, Inv s1 -> (due_count now (queue s1) <= n)%nat ->
              (forall rest, scan_loop Fixed P now fails (p :: rest) s cbs = scan_loop Fixed P now fails rest s1 cbs1) ->
              exists picks r, scan_loop Fixed P now fails picks s cbs = Some r).
    { intros s1 cbs1 I1 C1 Eq. destruct (IH s1 cbs1 I1 C1) as (rest & r & R).
      exists (p :: rest), r. rewrite Eq. assumption. }
    destruct (f_ready f) eqn:Rdy.
    + destruct (n_mem p fails) eqn:Hfail.
      * exists [p]. cbn [scan_loop]. unfold pop_pick. rewrite Hq, Hmin, Hbrk, Hf, Rdy. cbn [negb].
        rewrite Hfail. eauto.
      * destruct (snd d <=? now) eqn:Hin.
        -- destruct (shape_remove s p d f HI Hq Hf) as (I1 & _ & _).
           eapply (Cont _ (p :: cbs) I1); [cbn [queue]; lia|].
           intros rest. cbn [scan_loop]. unfold pop_pick. rewrite Hq, Hmin, Hbrk, Hf, Rdy. cbn [negb passed].
           rewrite Hfail, Hin. reflexivity.
        -- assert (Hac : (fst d <=? now) = true).
           { apply Z.leb_gt in Hin. apply dl_min_le in Hdue. apply Z.leb_le. lia. }
           destruct (shape_rearm s p d f HI Hq Hf (now + pA P, snd d)) as (I1 & _ & _).
           eapply (Cont _ (p :: cbs) I1).
           ++ cbn [queue]. rewrite due_count_push; [lia|]. apply dl_min_gt. cbn. apply Z.leb_gt in Hin. lia.
           ++ intros rest. cbn [scan_loop]. unfold pop_pick. rewrite Hq, Hmin, Hbrk, Hf, Rdy. cbn [negb passed].
              rewrite Hfail, Hin, Hac. reflexivity.
    + destruct (pMR P <? f_retries f + 1) eqn:Hmr.
      * destruct (shape_remove s p d f HI Hq Hf) as (I1 & _ & _).
        eapply (Cont _ cbs I1); [cbn [queue]; lia|].
        intros rest. cbn [scan_loop]. unfold pop_pick. rewrite Hq, Hmin, Hbrk, Hf, Rdy. cbn [negb].
        rewrite Hmr. reflexivity.
      * destruct (shape_requeue s p d f HI Hq Hf
                    (mkFlow (f_ready f) (f_retries f + 1) (f_filled f) (f_v4 f) (f_rec f))
                    (now + pA P, now + pI P)) as (I1 & _ & _).
        eapply (Cont _ cbs I1).
        -- cbn [queue]. rewrite due_count_push; [lia|]. apply dl_min_gt. cbn. lia.
        -- intros rest. cbn [scan_loop]. unfold pop_pick. rewrite Hq, Hmin, Hbrk, Hf, Rdy. cbn [negb].
           rewrite Hmr. reflexivity.
Qed.

Lemma scan_never_blocks P now fails s : wf_params P = true -> Inv s ->
  exists picks r, scan Fixed P now fails picks s = Some r.
Proof. intros WF HI. unfold scan. eapply scan_progress; [assumption|assumption|reflexivity]. Qed.
