(* C09: invariants of mixed histories on the current (repaired) exporter model. *)
From Coq Require Import List Bool Arith NArith ZArith Lia String.
From Coq Require Import ZifyN ZifyNat ZifyBool.
From Coq.Strings Require Import Byte.
From Verif.Base Require Import Bytes Outcome.
From Verif.Model Require Import IE Codec Record SetB Msg Exporter.
From Verif.Proofs Require Import Bytes_lemmas Codec_lemmas SetB_lemmas Exporter_lemmas C08_lemmas.
Import ListNotations.
Local Open Scope N_scope.
Local Notation length := List.length.

(* (id, field count) of the records of a set *)
Definition tpl_pairs (s : setb) : list (N * N) := map (fun r => (rec_tid r, rec_fc r)) (s_recs s).

(* every registered template was transmitted: its (id, field count) is in W, the template
   records that went out on the wire so far *)
Definition on_wire (m : tmap) (W : list (N * N)) : Prop :=
  forall id ies ml, lookup_tpl m id = Some (ies, ml) -> In (id, u16 (N.of_nat (length ies))) W.

(* records built by the set builder carry fieldCount = uint16(number of elements) *)
Definition fc_ok (r : rec) : Prop := rec_fc r = u16 (nels (rec_els r)).

Lemma build_record_fc t f els id r : build_record t f els id = Ok r -> fc_ok r.
Proof.
  destruct t; cbn [build_record].
  - destruct f; unfold tpl_record_v1, tpl_record_v2.
    + destruct (prepare_record _ _ _); cbn [obind]; try discriminate.
      destruct (tpl_add_v1 _ _ _) as [[b m]| | |]; cbn [obind]; try discriminate. intros [= <-]. reflexivity.
    + destruct (prepare_record _ _ _); cbn [obind]; try discriminate.
      destruct (tpl_add_v1 _ _ _) as [[b m]| | |]; cbn [obind]; try discriminate. intros [= <-]. reflexivity.
    + destruct (tpl_add_v2 _ _ _) as [b m]. destruct (prepare_record _ _ _); cbn [obind]; try discriminate.
      intros [= <-]. reflexivity.
  - destruct f; unfold data_record_v1, data_record_v2.
    + cbn. intros [= <-]. reflexivity.
    + destruct (k <? 0)%Z; [discriminate|]. intros [= <-]. reflexivity.
    + intros [= <-]. reflexivity.
  - destruct f; discriminate.
Qed.

Lemma fc_step s o : Forall fc_ok (s_rrecs s) -> Forall fc_ok (s_rrecs (fst (step s o))).
Proof.
  intros H. destruct o as [t id|f els id| |]; cbn [step].
  - destruct t; cbn [fst create_header]; try exact H;
      match goal with |- context [put_at ?b ?i ?x] => destruct (put_at b i x) end; exact H.
  - destruct (build_record _ _ _ _) eqn:E; cbn [fst]; try exact H.
    cbn [s_rrecs]. constructor; [eapply build_record_fc; eassumption|exact H].
  - destruct (put_at _ _ _); exact H.
  - constructor.
Qed.
Lemma fc_run ops : forall s, Forall fc_ok (s_rrecs s) -> Forall fc_ok (s_rrecs (run s ops)).
Proof.
  unfold run. induction ops as [|o r IH]; intros s H; cbn [fold_left]; [exact H|]. apply IH. now apply fc_step.
Qed.
Lemma fc_set_of ops r : In r (s_recs (set_of ops)) -> fc_ok r.
Proof.
  intros H. rewrite s_recs_rev in H. apply in_rev in H.
  pose proof (fc_run ops new_set (Forall_nil _)) as F. rewrite Forall_forall in F. now apply F.
Qed.

(* registration keeps every old entry and adds only (id, count) pairs of the set's records *)
Lemma lookup_update m id els ml id' :
  lookup_tpl (update_template m id els ml) id' =
  match lookup_tpl m id' with
  | Some v => Some v
  | None => if N.eqb id id' then Some (map fst els, ml) else None
  end.
Proof.
  unfold update_template. destruct (lookup_tpl m id) eqn:E.
  - destruct (lookup_tpl m id') eqn:E'; [reflexivity|].
    destruct (N.eqb_spec id id'); [congruence|reflexivity].
  - unfold lookup_tpl at 1. cbn [find fst snd]. destruct (N.eqb_spec id id') as [->|NE].
    + fold (lookup_tpl m id'). now rewrite E.
    + fold (lookup_tpl m id'). destruct (lookup_tpl m id'); reflexivity.
Qed.

Lemma register_all_on_wire rs : forall m W P,
  on_wire m W -> Forall fc_ok rs ->
  (forall r, In r rs -> In (rec_tid r, rec_fc r) P) ->
  on_wire (fst (register_all m rs)) (P ++ W).
Proof.
  induction rs as [|r rest IH]; intros m W P H F HP; cbn [register_all].
  - intros id ies ml L. apply in_or_app. right. eapply H; eassumption.
  - inversion F as [|? ? Fr F']; subst.
    destruct (rec_minlen r) as [ml| | |]; cbn [fst];
      try (intros id ies ml' L; apply in_or_app; right; eapply H; eassumption).
    intros id ies ml' L.
    specialize (IH (update_template m (rec_tid r) (rec_els r) ml) (P ++ W) P).
    assert (OW : on_wire (update_template m (rec_tid r) (rec_els r) ml) (P ++ W)).
    { intros id2 ies2 ml2 L2. rewrite lookup_update in L2.
      destruct (lookup_tpl m id2) eqn:E2.
      - apply in_or_app. right. eapply H. rewrite E2. exact L2.
      - destruct (N.eqb_spec (rec_tid r) id2) as [<-|]; [|discriminate].
        injection L2 as <- <-. apply in_or_app. left.
        rewrite map_length. unfold fc_ok, nels in Fr. rewrite <- Fr. apply HP. now left. }
    specialize (IH OW F' (fun x Hx => HP x (or_intror Hx)) id ies ml' L).
    apply in_app_or in IH as [I|I]; [apply in_or_app; now left|exact I].
Qed.

(* what a passed check of a data set established *)
Lemma sanity_ok m r : sanity cur m r = Ok tt ->
  exists ies ml b, lookup_tpl m (rec_tid r) = Some (ies, ml) /\
                   rec_fc r = u16 (N.of_nat (length ies)) /\ rec_buffer_e r = Ok (b, 0%nat).
Proof.
  unfold sanity. destruct (lookup_tpl m (rec_tid r)) as [[ies ml]|]; [|discriminate].
  destruct (N.eqb_spec (rec_fc r) (u16 (N.of_nat (length ies)))); cbn [negb]; [|discriminate].
  cbn [cur fx_reclen fx_zerolen]. fold (rec_buffer_e r).
  destruct (rec_buffer_e r) as [[b k]| | |]; cbn [obind]; try discriminate.
  destruct (blen b <? ml); [discriminate|]. cbn [cur fx_encode andb].
  destruct (Nat.eqb_spec k 0); cbn [negb]; [|discriminate]. subst k. intros _. eauto 6.
Qed.

Lemma check_all_ok m sid rs : check_all cur m sid rs = Ok tt ->
  Forall (fun r => rec_tid r = sid /\ sanity cur m r = Ok tt) rs.
Proof.
  induction rs as [|r rest IH]; cbn [check_all]; [constructor|].
  cbn [cur fx_setid andb]. destruct (N.eqb_spec (rec_tid r) sid); cbn [negb]; [|discriminate].
  destruct (sanity cur m r) as [[]| | |] eqn:E; cbn [obind]; try discriminate.
  intros H. constructor; [auto|now apply IH].
Qed.

(* the demand of C09 on one call, given the template records W transmitted before it *)
Definition c09_send (W : list (N * N)) (s : setb) (x : sent) : Prop :=
  (* (c) an error return wrote nothing *)
  (forall k, r_res x = Err k -> r_wire x = None) /\
  (forall n, r_res x = Ok n ->
     exists bytes, r_wire x = Some bytes /\ n = blen bytes /\
       (* (b) never above the limit *)
       blen bytes <= 65535 /\
       (* (a) a data set goes out only under an id whose template is earlier on the wire, every
          record carrying that id and that template's field count; (e) and no record whose
          encoding hit an error *)
       (s_type s = SData ->
          exists fc, In (hdr_id s, fc) W /\
            forall r, In r (s_recs s) ->
              rec_tid r = hdr_id s /\ rec_fc r = fc /\ exists b, rec_buffer_e r = Ok (b, 0%nat))).

Definition wire_after (W : list (N * N)) (s : setb) (x : sent) : list (N * N) :=
  match s_type s, r_wire x with
  | STemplate, Some _ => tpl_pairs s ++ W
  | _, _ => W
  end.

Fixpoint hist_ok (W : list (N * N)) (h : list event) (xs : list sent) : Prop :=
  match h, xs with
  | [], [] => True
  | (ops, t) :: hr, x :: xr =>
      c09_send W (set_of ops) x /\ hist_ok (wire_after W (set_of ops) x) hr xr
  | _, _ => False
  end.

Definition no_panic (x : sent) : Prop := r_res x <> Panic.

Lemma send_set_step_m st s t W :
  InvM s -> (forall r, In r (s_recs s) -> fc_ok r) -> st_wf st -> on_wire (x_tpls st) W ->
  no_panic (send_set cur st s t) ->
  c09_send W s (send_set cur st s t) /\
  on_wire (x_tpls (r_st (send_set cur st s t))) (wire_after W s (send_set cur st s t)) /\
  st_wf (r_st (send_set cur st s t)).
Proof.
  intros HI HF HW OW NP. split; [split|].
  - intros k Hk. now apply (send_set_err_nothing st s t k).
  - intros n Hn. destruct (send_set_ok_m st s t n HI HW Hn) as [bytes [Hw Hnn _ Hl Hm _ _ _]].
    exists bytes. repeat split; auto. intros Ety.
    (* the checks that let a data set through *)
    unfold send_set in Hn. rewrite Ety in Hn.
    cbn [cur fx_register with_seq with_tpls x_obs x_seq x_tpls x_udp] in Hn.
    destruct (check_set cur (x_tpls st) s) as [[]| | |] eqn:Ec; cbn [r_res] in Hn; try discriminate.
    unfold check_set in Ec. cbn [cur fx_setid] in Ec.
    destruct (Nat.ltb (length (s_hdr s)) 4); [discriminate|].
    destruct (lookup_tpl (x_tpls st) (hdr_id s)) as [[ies ml]|] eqn:El; [|discriminate].
    exists (u16 (N.of_nat (length ies))). split; [eapply OW; exact El|].
    pose proof (check_all_ok _ _ _ Ec) as F. rewrite Forall_forall in F.
    intros r Hr. destruct (F r Hr) as [Et Hs]. destruct (sanity_ok _ _ Hs) as (ies' & ml' & b & L & Hfc & Hb).
    rewrite Et in L. rewrite El in L. injection L as <- <-. repeat split; eauto.
  - (* the state after the call *)
    unfold no_panic in NP. unfold wire_after. unfold send_set in *. destruct (s_type s) eqn:Ety.
    + cbn [cur fx_register with_seq with_tpls x_obs x_seq x_tpls x_udp] in *.
      destruct (create_msg _ _ _ _) as [bytes| | |]; cbn [r_st r_wire r_res x_tpls x_seq] in *;
        try (split; [exact OW|exact HW]).
      destruct (write_ok _ _); cbn [r_st r_wire r_res x_tpls x_seq] in *; try (split; [exact OW|exact HW]).
      pose proof (register_all_on_wire (s_recs s) (x_tpls st) W (tpl_pairs s) OW) as R.
      destruct (register_all (x_tpls st) (s_recs s)) as [m o] eqn:Er. cbn [fst] in R.
      assert (OW' : on_wire m (tpl_pairs s ++ W)).
      { apply R; [apply Forall_forall; exact HF|].
        intros r Hr. unfold tpl_pairs. apply in_map_iff. exists r. auto. }
      destruct o; cbn [r_st r_wire x_tpls x_seq with_tpls]; (split; [exact OW'|exact HW]).
    + cbn [cur fx_register with_seq with_tpls x_obs x_seq x_tpls x_udp] in *.
      assert (W2 : forall q, st_wf (mkExp (x_obs st) (u32 q) (x_tpls st) (x_udp st))).
      { intros q. unfold st_wf. cbn [x_seq]. now rewrite u32_idem. }
      destruct (check_set _ _ _); cbn [r_st r_wire x_tpls]; try (split; [exact OW|exact HW]).
      destruct (create_msg _ _ _ _) as [bytes| | |]; cbn [r_st r_wire x_tpls]; try (split; [exact OW|apply W2]).
      destruct (write_ok _ _); cbn [r_st r_wire x_tpls]; (split; [exact OW|apply W2]).
    + cbn [r_st r_wire]. split; [exact OW|exact HW].
Qed.

Lemma send_set_step st s t W :
  Inv s -> (forall r, In r (s_recs s) -> fc_ok r) -> st_wf st -> on_wire (x_tpls st) W ->
  no_panic (send_set cur st s t) ->
  c09_send W s (send_set cur st s t) /\
  on_wire (x_tpls (r_st (send_set cur st s t))) (wire_after W s (send_set cur st s t)) /\
  st_wf (r_st (send_set cur st s t)).
Proof. intros H. apply send_set_step_m. now apply Inv_InvM. Qed.

Theorem no_invalid_lemma h : forall st W,
  st_wf st -> on_wire (x_tpls st) W -> Forall no_panic (run_hist cur st h) ->
  hist_ok W h (run_hist cur st h).
Proof.
  induction h as [|[ops t] r IH]; intros st W HW OW NP; [exact I|].
  cbn [run_hist hist_ok] in *. inversion NP as [|x xs NPx NP']; subst.
  destruct (send_set_step st (set_of ops) t W (Inv_set_of ops) (fc_set_of ops) HW OW NPx) as (C & OW' & HW').
  split; [exact C|]. apply IH; assumption.
Qed.

Lemma on_wire_empty W : on_wire [] W.
Proof. intros id ies ml L. discriminate. Qed.
