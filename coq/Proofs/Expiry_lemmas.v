(* Proofs about the expiry model (Model/Expiry.v, repaired variant) against the specification
   oracle of Model/ExpirySpec.v. *)
From Coq Require Import List Bool NArith ZArith Lia String.
From Verif.Base Require Import Outcome.
From Verif.Model Require Import IE KMap Pq Corr Expiry ExpirySpec.
From Verif.Proofs Require Import KMap_lemmas.
Import ListNotations.
Local Open Scope Z_scope.

(* ---- (I1) as a Prop ---- *)
Definition Inv (s : st) : Prop :=
  NoDup (km_keys (flows s)) /\ NoDup (km_keys (queue s)) /\
  forall k, km_find k (flows s) = None <-> km_find k (queue s) = None.

Lemma Inv_init : Inv init.
Proof. repeat split; constructor. Qed.

Lemma inv_b_of_Inv s : Inv s -> inv_b s = true.
Proof.
  intros (N1 & N2 & E). unfold inv_b.
  rewrite !andb_true_iff, !n_nodup_NoDup, !forallb_forall. repeat split; try assumption.
  - intros k I. apply km_find_In_keys in I. unfold km_mem.
    destruct (km_find k (queue s)) eqn:F; [reflexivity|]. apply E in F. congruence.
  - intros k I. apply km_find_In_keys in I. unfold km_mem.
    destruct (km_find k (flows s)) eqn:F; [reflexivity|]. apply E in F. congruence.
Qed.

Lemma Inv_of_inv_b s : inv_b s = true -> Inv s.
Proof.
  unfold inv_b. rewrite !andb_true_iff, !n_nodup_NoDup, !forallb_forall.
  intros [[[N1 N2] A] B]. repeat split; try assumption.
  - intros F. destruct (km_find k (queue s)) eqn:G; [|reflexivity].
    assert (I : In k (km_keys (queue s))) by (apply km_find_In_keys; congruence).
    apply B in I. unfold km_mem in I. rewrite F in I. discriminate.
  - intros F. destruct (km_find k (flows s)) eqn:G; [|reflexivity].
    assert (I : In k (km_keys (flows s))) by (apply km_find_In_keys; congruence).
    apply A in I. unfold km_mem in I. rewrite F in I. discriminate.
Qed.

(* ---- boolean helpers ---- *)
Lemma meta_eqb_refl m : meta_eqb m m = true.
Proof. destruct m as [[[a b] c] d]. cbn. rewrite !eqb_reflx, Z.eqb_refl. reflexivity. Qed.
Lemma dl_eqb_refl d : dl_eqb d d = true.
Proof. unfold dl_eqb. rewrite !Z.eqb_refl. reflexivity. Qed.
Lemma entry_eqb_refl e : entry_eqb e e = true.
Proof.
  destruct e as [[m|] [d|]]; unfold entry_eqb; cbn; rewrite ?meta_eqb_refl, ?dl_eqb_refl; reflexivity.
Qed.
Lemma entry_eqb_eq a b : a = b -> entry_eqb a b = true.
Proof. intros ->. apply entry_eqb_refl. Qed.
Lemma keys_eqb_refl l : keys_eqb l l = true.
Proof. induction l; cbn; [reflexivity|]. rewrite N.eqb_refl. assumption. Qed.

(* ---- the least deadline ---- *)
Lemma min_deadline_le q m : min_deadline q = Some m -> forall it, In it q -> m <= deadline it.
Proof.
  revert m. induction q as [|x q IH]; cbn; [discriminate|].
  intros m. destruct (min_deadline q) as [m'|] eqn:E.
  - intros [= <-] it [<-|I]; [lia|]. specialize (IH m' eq_refl it I). lia.
  - intros [= <-] it [<-|I]; [lia|]. destruct q; [destruct I|]. cbn in E.
    destruct (min_deadline q); discriminate.
Qed.
Lemma min_deadline_attained q m : min_deadline q = Some m -> exists it, In it q /\ deadline it = m.
Proof.
  revert m. induction q as [|x q IH]; cbn; [discriminate|].
  intros m. destruct (min_deadline q) as [m'|] eqn:E.
  - intros [= <-]. destruct (IH m' eq_refl) as (it & I & D).
    destruct (Z.le_ge_cases (deadline x) m').
    + exists x. split; [auto|lia].
    + exists it. split; [auto|lia].
  - intros [= <-]. exists x. auto.
Qed.
Lemma min_deadline_None q : min_deadline q = None -> q = [].
Proof. destruct q; cbn; [reflexivity|]. destruct (min_deadline q); discriminate. Qed.

Lemma dl_min_le d now : dl_min d <= now <-> (fst d <= now \/ snd d <= now).
Proof. unfold dl_min. destruct (Z.ltb_spec (fst d) (snd d)); lia. Qed.
Lemma dl_min_gt d now : now < dl_min d <-> (now < fst d /\ now < snd d).
Proof. unfold dl_min. destruct (Z.ltb_spec (fst d) (snd d)); lia. Qed.

(* ---- shapes of a state update on one key ---- *)
  Lemma shape_remove (s : st) (p : key) (d : dl) (f : flow)
    (HI : Inv s) (Hq : km_find p (queue s) = Some d) (Hf : km_find p (flows s) = Some f) :
    let s1 := mkSt (km_remove p (flows s)) (km_remove p (queue s)) in
    Inv s1 /\ entry_of s1 p = (None, None) /\ forall k, k <> p -> entry_of s1 k = entry_of s k.
  Proof.
    destruct HI as (N1 & N2 & E). cbn. split; [|split].
    - repeat split; cbn; try (apply km_remove_NoDup; assumption).
      + intros F. destruct (N.eq_dec k p) as [->|NE]; [apply km_find_remove_same; assumption|].
        rewrite km_find_remove_other in F by assumption. rewrite km_find_remove_other by assumption.
        apply E. assumption.
      + intros F. destruct (N.eq_dec k p) as [->|NE]; [apply km_find_remove_same; assumption|].
        rewrite km_find_remove_other in F by assumption. rewrite km_find_remove_other by assumption.
        apply E. assumption.
    - unfold entry_of. cbn. rewrite !km_find_remove_same by assumption. reflexivity.
    - intros k NE. unfold entry_of. cbn. rewrite !km_find_remove_other by assumption. reflexivity.
  Qed.

  Lemma shape_requeue (s : st) (p : key) (d : dl) (f : flow)
    (HI : Inv s) (Hq : km_find p (queue s) = Some d) (Hf : km_find p (flows s) = Some f) f' d' :
    let s1 := mkSt (km_put p f' (flows s)) (pq_push p d' (km_remove p (queue s))) in
    Inv s1 /\ entry_of s1 p = (Some (flow_meta f'), Some d') /\
    forall k, k <> p -> entry_of s1 k = entry_of s k.
  Proof.
    destruct HI as (N1 & N2 & E). cbn. split; [|split].
    - repeat split; cbn.
      + apply km_put_NoDup. assumption.
      + apply km_push_NoDup; [apply km_remove_NoDup; assumption|apply km_find_remove_same; assumption].
      + rewrite km_find_put. unfold pq_push. rewrite km_find_push.
        destruct (N.eqb_spec p k) as [->|NE]; [discriminate|].
        rewrite km_find_remove_other by congruence. intros F. apply E in F. rewrite F. reflexivity.
      + rewrite km_find_put. unfold pq_push. rewrite km_find_push.
        destruct (N.eqb_spec p k) as [->|NE].
        * rewrite km_find_remove_same by assumption. discriminate.
        * rewrite km_find_remove_other by congruence.
          destruct (km_find k (queue s)) eqn:F; [discriminate|]. intros _. apply E. assumption.
    - unfold entry_of. cbn. rewrite km_find_put, N.eqb_refl. unfold pq_push.
      rewrite km_find_push, km_find_remove_same, N.eqb_refl by assumption. reflexivity.
    - intros k NE. unfold entry_of. cbn. rewrite km_find_put. unfold pq_push. rewrite km_find_push.
      destruct (N.eqb_spec p k); [congruence|]. rewrite km_find_remove_other by assumption.
      destruct (km_find k (queue s)); reflexivity.
  Qed.

  Lemma shape_rearm (s : st) (p : key) (d : dl) (f : flow)
    (HI : Inv s) (Hq : km_find p (queue s) = Some d) (Hf : km_find p (flows s) = Some f) d' :
    let s1 := mkSt (flows s) (pq_push p d' (km_remove p (queue s))) in
    Inv s1 /\ entry_of s1 p = (Some (flow_meta f), Some d') /\
    forall k, k <> p -> entry_of s1 k = entry_of s k.
  Proof.
    destruct HI as (N1 & N2 & E). cbn. split; [|split].
    - repeat split; cbn; try assumption.
      + apply km_push_NoDup; [apply km_remove_NoDup; assumption|apply km_find_remove_same; assumption].
      + unfold pq_push. rewrite km_find_push. intros F.
        destruct (N.eqb_spec p k) as [->|NE]; [congruence|].
        rewrite km_find_remove_other by congruence. apply E in F. rewrite F. reflexivity.
      + unfold pq_push. rewrite km_find_push.
        destruct (N.eqb_spec p k) as [->|NE].
        * rewrite km_find_remove_same by assumption. discriminate.
        * rewrite km_find_remove_other by congruence.
          destruct (km_find k (queue s)) eqn:F; [discriminate|]. intros _. apply E. assumption.
    - unfold entry_of. cbn. rewrite Hf. unfold pq_push.
      rewrite km_find_push, km_find_remove_same, N.eqb_refl by assumption. reflexivity.
    - intros k NE. unfold entry_of. cbn. unfold pq_push. rewrite km_find_push.
      destruct (N.eqb_spec p k); [congruence|]. rewrite km_find_remove_other by assumption.
      destruct (km_find k (queue s)); reflexivity.
  Qed.

(* [proc] branch by branch: this is (I3) *)
Lemma proc_drop P now fails k f d : f_ready f = false -> (pMR P <? f_retries f + 1) = true ->
  proc P now fails k (Some (flow_meta f), Some d) = (None, None).
Proof. unfold proc, flow_meta. intros -> ->. reflexivity. Qed.
Lemma proc_retry P now fails k f d : f_ready f = false -> (pMR P <? f_retries f + 1) = false ->
  proc P now fails k (Some (flow_meta f), Some d) =
  (Some (flow_meta (mkFlow (f_ready f) (f_retries f + 1) (f_filled f) (f_v4 f) (f_rec f))),
   Some (now + pA P, now + pI P)).
Proof. unfold proc, flow_meta. intros R ->. cbn. rewrite R. reflexivity. Qed.
Lemma proc_fail P now fails k f d : f_ready f = true -> n_mem k fails = true ->
  proc P now fails k (Some (flow_meta f), Some d) = (Some (flow_meta f), Some d).
Proof. unfold proc, flow_meta. intros -> ->. reflexivity. Qed.
Lemma proc_inactive P now fails k f d : f_ready f = true -> n_mem k fails = false ->
  (snd d <=? now) = true -> proc P now fails k (Some (flow_meta f), Some d) = (None, None).
Proof. unfold proc, flow_meta. intros -> -> ->. reflexivity. Qed.
Lemma proc_active P now fails k f d : f_ready f = true -> n_mem k fails = false ->
  (snd d <=? now) = false ->
  proc P now fails k (Some (flow_meta f), Some d) = (Some (flow_meta f), Some (now + pA P, snd d)).
Proof. unfold proc, flow_meta. intros R -> ->. cbn. rewrite R. reflexivity. Qed.

(* ---- the scan ---- *)
Definition scan_post (P : params) (now : Z) (fails : list key) (picks : list key) (s s' : st)
           (cbs0 cbs' : list key) (err : bool) : Prop :=
  Inv s' /\
  NoDup picks /\
  (forall k, In k picks -> due_in s now k = true) /\
  sorted_b (map (dl_in s) picks) = true /\
  cbs' = rev cbs0 ++ filter (ready_in s) picks /\
  (if err then
     exists l, last_key picks = Some l /\ ready_in s l = true /\ n_mem l fails = true /\
       (forall k dk, km_find k (queue s) = Some dk -> dl_min dk < dl_in s l -> In k picks) /\
       (forall k, In k (filter (ready_in s) picks) -> n_mem k fails = false \/ k = l)
   else (forall k dk, km_find k (queue s) = Some dk -> dl_min dk <= now -> In k picks) /\
        (forall k, In k (filter (ready_in s) picks) -> n_mem k fails = false)) /\
  (forall k, entry_of s' k = if n_mem k picks then proc P now fails k (entry_of s k) else entry_of s k) /\
  (err = false -> forall k dk, km_find k (queue s') = Some dk -> now < fst dk /\ now < snd dk).

Lemma entry_due s s1 now k : entry_of s1 k = entry_of s k -> due_in s1 now k = due_in s now k.
Proof. unfold entry_of, due_in. intros [= _ ->]. reflexivity. Qed.
Lemma entry_dl s s1 k : entry_of s1 k = entry_of s k -> dl_in s1 k = dl_in s k.
Proof. unfold entry_of, dl_in. intros [= _ ->]. reflexivity. Qed.
Lemma entry_ready s s1 k : entry_of s1 k = entry_of s k -> ready_in s1 k = ready_in s k.
Proof.
  unfold entry_of, ready_in. intros [= E _].
  destruct (km_find k (flows s1)), (km_find k (flows s)); cbn in E; try discriminate; [|reflexivity].
  unfold flow_meta in E. congruence.
Qed.
Lemma entry_queue s s1 k : entry_of s1 k = entry_of s k -> km_find k (queue s1) = km_find k (queue s).
Proof. unfold entry_of. intros [= _ ->]. reflexivity. Qed.

Lemma due_of_entry s now k m od : entry_of s k = (m, od) ->
  due_in s now k = match od with Some d => dl_min d <=? now | None => false end.
Proof. unfold entry_of, due_in. intros [= _ ->]. reflexivity. Qed.

Lemma last_key_cons p l : l <> [] -> last_key (p :: l) = last_key l.
Proof.
  unfold last_key. cbn. intros NE. destruct (rev l) eqn:R; [|reflexivity].
  apply (f_equal (@rev key)) in R. rewrite rev_involutive in R. cbn in R. congruence.
Qed.

Lemma sorted_b_cons2 a b r : sorted_b (a :: b :: r) = (a <=? b) && sorted_b (b :: r).
Proof. reflexivity. Qed.

(* one more pick in front of an already analysed suffix *)
Lemma scan_post_cons P now fails p rest s s1 s' cbs1 cbs' err d f :
  Inv s -> km_find p (queue s) = Some d -> km_find p (flows s) = Some f ->
  is_min d (km_remove p (queue s)) = true -> dl_min d <= now ->
  (forall k, k <> p -> entry_of s1 k = entry_of s k) ->
  entry_of s1 p = proc P now fails p (entry_of s p) ->
  due_in s1 now p = false ->
  (f_ready f = true -> n_mem p fails = false) ->
  scan_post P now fails rest s1 s' cbs1 cbs' err ->
  forall cbs0, cbs1 = (if f_ready f then p :: cbs0 else cbs0) ->
  scan_post P now fails (p :: rest) s s' cbs0 cbs' err.
Proof.
  intros HI Hq Hf Hmin Hdue Hoth Hp Hnd Hnf (I' & ND & Due & Sort & Cbs & Compl & Ent & Fut) cbs0 Hc.
  assert (Pnot : ~ In p rest).
  { intros I. apply Due in I. congruence. }
  assert (Rp : ready_in s p = f_ready f) by (unfold ready_in; rewrite Hf; reflexivity).
  assert (Dp : dl_in s p = dl_min d) by (unfold dl_in; rewrite Hq; reflexivity).
  assert (NEr : forall k, In k rest -> k <> p) by (intros k I ->; tauto).
  assert (MinO : forall k dk, k <> p -> km_find k (queue s) = Some dk -> dl_min d <= dl_min dk).
  { intros k dk NE F. unfold is_min in Hmin. rewrite forallb_forall in Hmin.
    specialize (Hmin (k, dk)). destruct HI as (_ & N2 & _).
    assert (I : In (k, dk) (km_remove p (queue s))).
    { apply km_In_remove_other; [cbn; assumption|apply km_find_In; assumption]. }
    apply Hmin in I. unfold deadline in I. cbn in I.
    destruct (Z.ltb_spec (dl_min dk) (dl_min d)); [discriminate|lia]. }
  assert (Fr : filter (ready_in s) rest = filter (ready_in s1) rest).
  { apply filter_ext_in. intros k I. symmetry. apply entry_ready, Hoth, NEr, I. }
  split; [assumption|]. split; [constructor; assumption|]. split; [|split; [|split; [|split; [|split]]]].
  - intros k [<-|I]; [unfold due_in; rewrite Hq; apply Z.leb_le; assumption|].
    rewrite <- (entry_due s s1) by (apply Hoth, NEr, I). apply Due, I.
  - assert (E : map (dl_in s) rest = map (dl_in s1) rest).
    { apply map_ext_in. intros k I. symmetry. apply entry_dl, Hoth, NEr, I. }
    cbn [map]. rewrite E. destruct rest as [|k rest']; [reflexivity|].
    cbn [map] in *. rewrite sorted_b_cons2, Sort, andb_true_r. apply Z.leb_le.
    rewrite Dp. assert (Ik : In k (k :: rest')) by (left; reflexivity).
    assert (NEk := NEr k Ik). rewrite (entry_dl s s1) by (apply Hoth; assumption).
    pose proof (Due k Ik) as Dk. rewrite (entry_due s s1) in Dk by (apply Hoth; assumption).
    unfold due_in in Dk. unfold dl_in. destruct (km_find k (queue s)) as [dk|] eqn:Fk; [|discriminate].
    eapply MinO; eassumption.
  - subst cbs1. cbn [filter]. rewrite Rp, Fr, Cbs. destruct (f_ready f); cbn; [rewrite <- app_assoc|]; reflexivity.
  - destruct err.
    + destruct Compl as (l & La & Rl & Fl & Co & Nf).
      assert (Il : In l rest).
      { unfold last_key in La. destruct (rev rest) eqn:R; [discriminate|]. injection La as ->.
        apply in_rev. rewrite R. left. reflexivity. }
      assert (NEl := NEr l Il).
      exists l. split; [|split; [|split; [|split]]].
      * rewrite last_key_cons; [assumption|]. intros ->. destruct Il.
      * rewrite <- (entry_ready s s1) by (apply Hoth; assumption). assumption.
      * assumption.
      * intros k dk F Lt. destruct (N.eq_dec k p) as [->|NE]; [left; reflexivity|]. right.
        apply (Co k dk).
        -- rewrite (entry_queue s s1) by (apply Hoth; assumption). assumption.
        -- rewrite (entry_dl s s1) by (apply Hoth; assumption). assumption.
      * intros k. cbn [filter]. rewrite Rp. destruct (f_ready f) eqn:Rf.
        -- intros [<-|I]; [left; auto|]. apply Nf. rewrite <- Fr. assumption.
        -- intros I. apply Nf. rewrite <- Fr. assumption.
    + destruct Compl as (Co & Nf). split.
      * intros k dk F Le. destruct (N.eq_dec k p) as [->|NE]; [left; reflexivity|]. right.
        apply (Co k dk); [|assumption].
        rewrite (entry_queue s s1) by (apply Hoth; assumption). assumption.
      * intros k. cbn [filter]. rewrite Rp. destruct (f_ready f) eqn:Rf.
        -- intros [<-|I]; [auto|]. apply Nf. rewrite <- Fr. assumption.
        -- intros I. apply Nf. rewrite <- Fr. assumption.
  - intros k. rewrite Ent. cbn [n_mem]. destruct (N.eqb_spec p k) as [<-|NE].
    + cbn [orb]. apply n_mem_false in Pnot. rewrite Pnot. assumption.
    + cbn [orb]. rewrite Hoth by congruence. reflexivity.
  - assumption.
Qed.

Lemma scan_loop_spec P now fails : wf_params P = true ->
  forall picks s cbs s' cbs' err, Inv s ->
  scan_loop Fixed P now fails picks s cbs = Some (s', cbs', err) ->
  scan_post P now fails picks s s' cbs cbs' err.
Proof.
  intros WF. unfold wf_params in WF. apply andb_true_iff in WF. destruct WF as [PA PI].
  apply Z.ltb_lt in PA, PI.
  induction picks as [|p rest IH]; intros s cbs s' cbs' err HI H.
  - (* the loop stopped *)
    cbn in H.
    assert (E : s' = s /\ cbs' = rev cbs /\ err = false /\
                forall k dk, km_find k (queue s) = Some dk -> now < dl_min dk).
    { destruct (min_deadline (queue s)) as [m|] eqn:M.
      - destruct (Z.ltb_spec now m); [|discriminate]. injection H as <- <- <-. repeat split.
        intros k dk F. pose proof (min_deadline_le _ _ M (k, dk) (km_find_In _ _ _ F)) as L.
        unfold deadline in L. cbn in L. lia.
      - injection H as <- <- <-. repeat split. apply min_deadline_None in M.
        intros k dk F. rewrite M in F. discriminate. }
    destruct E as (-> & -> & -> & Fut).
    split; [assumption|]. split; [constructor|]. split; [intros k []|]. split; [reflexivity|].
    split; [cbn; rewrite app_nil_r; reflexivity|]. split; [|split].
    + split; [|intros k []]. intros k dk F Le. apply Fut in F. lia.
    + intros k. reflexivity.
    + intros _ k dk F. apply dl_min_gt. apply Fut in F. assumption.
  - cbn [scan_loop] in H. unfold pop_pick in H.
    destruct (km_find p (queue s)) as [d|] eqn:Hq; [|discriminate].
    destruct (is_min d (km_remove p (queue s))) eqn:Hmin; [|discriminate].
    destruct ((now <? fst d) && (now <? snd d)) eqn:Hbrk; [discriminate|].
    assert (Hdue : dl_min d <= now).
    { apply dl_min_le. apply andb_false_iff in Hbrk. destruct Hbrk as [B|B]; apply Z.ltb_ge in B; lia. }
    destruct (km_find p (flows s)) as [f|] eqn:Hf; [|discriminate].
    assert (Ep : entry_of s p = (Some (flow_meta f), Some d)) by (unfold entry_of; rewrite Hq, Hf; reflexivity).
    destruct (negb (f_ready f)) eqn:Rdy.
    + (* not ready *)
      apply negb_true_iff in Rdy.
      destruct (pMR P <? f_retries f + 1) eqn:Hmr.
      * destruct (shape_remove s p d f HI Hq Hf) as (I1 & E1 & O1).
        eapply scan_post_cons; try eassumption.
        -- rewrite E1, Ep, proc_drop by assumption. reflexivity.
        -- rewrite (due_of_entry _ _ _ _ _ E1). reflexivity.
        -- congruence.
        -- apply IH; eassumption.
        -- rewrite Rdy. reflexivity.
      * set (f' := mkFlow (f_ready f) (f_retries f + 1) (f_filled f) (f_v4 f) (f_rec f)) in *.
        destruct (shape_requeue s p d f HI Hq Hf f' (now + pA P, now + pI P)) as (I1 & E1 & O1).
        eapply scan_post_cons; try eassumption.
        -- rewrite E1, Ep, proc_retry by assumption. reflexivity.
        -- rewrite (due_of_entry _ _ _ _ _ E1). apply Z.leb_gt. apply dl_min_gt. cbn. lia.
        -- congruence.
        -- apply IH; eassumption.
        -- rewrite Rdy. reflexivity.
    + apply negb_false_iff in Rdy.
      destruct (n_mem p fails) eqn:Hfail.
      * (* callback error: the item is pushed back and the scan returns *)
        destruct rest; [|discriminate]. injection H as <- <- <-.
        destruct (shape_rearm s p d f HI Hq Hf d) as (I1 & E1 & O1).
        assert (Rp : ready_in s p = true) by (unfold ready_in; rewrite Hf; assumption).
        split; [assumption|]. split; [constructor; [intros []|constructor]|].
        split; [intros k [<-|[]]; unfold due_in; rewrite Hq; apply Z.leb_le; assumption|].
        split; [reflexivity|]. split; [cbn; rewrite Rp; reflexivity|]. split; [|split].
        -- exists p. split; [reflexivity|]. split; [assumption|]. split; [assumption|]. split.
           ++ intros k dk F Lt. destruct (N.eq_dec k p) as [->|NE]; [left; reflexivity|]. exfalso.
              unfold is_min in Hmin. rewrite forallb_forall in Hmin.
              assert (I : In (k, dk) (km_remove p (queue s))).
              { apply km_In_remove_other; [cbn; assumption|apply km_find_In; assumption]. }
              apply Hmin in I. unfold deadline in I. cbn in I. unfold dl_in in Lt. rewrite Hq in Lt.
              destruct (Z.ltb_spec (dl_min dk) (dl_min d)); [discriminate|lia].
           ++ cbn. rewrite Rp. intros k [<-|[]]. right. reflexivity.
        -- intros k. cbn [n_mem]. destruct (N.eqb_spec p k) as [<-|NE]; cbn [orb].
           ++ rewrite E1, Ep, proc_fail by assumption. reflexivity.
           ++ apply O1. congruence.
        -- discriminate.
      * cbn [passed] in H. destruct (snd d <=? now) eqn:Hin.
        -- destruct (shape_remove s p d f HI Hq Hf) as (I1 & E1 & O1).
           eapply scan_post_cons; try eassumption.
           ++ rewrite E1, Ep, proc_inactive by assumption. reflexivity.
           ++ rewrite (due_of_entry _ _ _ _ _ E1). reflexivity.
           ++ intros _. assumption.
           ++ apply IH; eassumption.
           ++ rewrite Rdy. reflexivity.
        -- destruct (fst d <=? now) eqn:Hac.
           ++ destruct (shape_rearm s p d f HI Hq Hf (now + pA P, snd d)) as (I1 & E1 & O1).
              eapply scan_post_cons; try eassumption.
              ** rewrite E1, Ep, proc_active by assumption. reflexivity.
              ** rewrite (due_of_entry _ _ _ _ _ E1). apply Z.leb_gt. apply dl_min_gt. cbn.
                 apply Z.leb_gt in Hin. lia.
              ** intros _. assumption.
              ** apply IH; eassumption.
              ** rewrite Rdy. reflexivity.
           ++ exfalso. apply Z.leb_gt in Hin, Hac. apply dl_min_le in Hdue. lia.
Qed.

(* ---- from the Prop-level post-condition to the boolean oracle ---- *)
Lemma In_all_keys_r pre post k : In k (km_keys (queue pre)) -> In k (all_keys pre post).
Proof. unfold all_keys. rewrite !in_app_iff. tauto. Qed.

Lemma check_scan_of_post P now fails picks pre post cbs err :
  Inv pre -> scan_post P now fails picks pre post [] cbs err ->
  check_scan P now fails err cbs picks pre post = true.
Proof.
  intros HI (I' & ND & Due & Sort & Cbs & Compl & Ent & Fut). unfold check_scan.
  destruct HI as (N1 & N2 & E).
  rewrite !andb_true_iff. repeat split.
  - apply n_nodup_NoDup. assumption.
  - apply forallb_forall. assumption.
  - assumption.
  - cbn in Cbs. subst cbs. apply keys_eqb_refl.
  - destruct err.
    + destruct Compl as (l & -> & Rl & Fl & Co & Nf). rewrite Rl, Fl. cbn.
      rewrite andb_true_iff, !forallb_forall. split.
      * intros [k dk] I. cbn. destruct (Z.ltb_spec (dl_min dk) (dl_in pre l)); [|reflexivity]. cbn.
        apply n_mem_In. eapply Co; [apply km_In_find; eassumption|assumption].
      * cbn in Cbs. subst cbs. intros k I. destruct (Nf k I) as [->| ->]; [reflexivity|].
        rewrite N.eqb_refl. apply orb_true_r.
    + destruct Compl as (Co & Nf). rewrite andb_true_iff, !forallb_forall. split.
      * intros [k dk] I. cbn. destruct (Z.leb_spec (dl_min dk) now); [|reflexivity]. cbn.
        apply n_mem_In. eapply Co; [apply km_In_find; eassumption|assumption].
      * cbn in Cbs. subst cbs. intros k I. rewrite (Nf k I). reflexivity.
  - apply forallb_forall. intros k _. apply entry_eqb_eq. apply Ent.
  - destruct err; [reflexivity|]. cbn. apply forallb_forall. intros [k dk] I. cbn.
    destruct I' as (_ & N2' & _).
    destruct (Fut eq_refl k dk (km_In_find _ _ _ N2' I)) as [A B].
    apply Z.ltb_lt in A, B. rewrite A, B. reflexivity.
Qed.

(* ---- a record ---- *)
Ltac obind_inv H :=
  repeat match type of H with
         | obind ?o _ = Ok _ => let E := fresh "E" in destruct o eqn:E; cbn [obind] in H; try discriminate
         end.

Lemma add_or_update_shape P now k r s s' :
  add_or_update P now k r s = Ok s' ->
  (exists f f', km_find k (flows s) = Some f /\
     s' = mkSt (km_put k f' (flows s)) (pq_set_inactive k (now + pI P) (queue s))) \/
  (km_find k (flows s) = None /\ exists f,
     s' = mkSt (km_put k f (flows s)) (pq_push k (now + pA P, now + pI P) (queue s))).
Proof.
  unfold add_or_update. intros H. obind_inv H.
  destruct (km_find k (flows s)) as [f|] eqn:F.
  - obind_inv H. injection H as <-. left. eauto.
  - obind_inv H. injection H as <-. right. eauto.
Qed.

Lemma check_rec_ok P now k r pre post :
  Inv pre -> add_or_update P now k r pre = Ok post ->
  Inv post /\ check_rec P now k pre post = true.
Proof.
  intros HI H. destruct (add_or_update_shape _ _ _ _ _ _ H) as [(f & f' & F & ->)|(F & f & ->)];
    destruct HI as (N1 & N2 & E).
  - (* existing flow: Update pushes the inactive deadline *)
    destruct (km_find k (queue pre)) as [d|] eqn:Q; [|apply E in Q; congruence].
    assert (Oth : forall k', k' <> k ->
              entry_of (mkSt (km_put k f' (flows pre)) (pq_set_inactive k (now + pI P) (queue pre))) k' = entry_of pre k').
    { intros k' NE. unfold entry_of, pq_set_inactive. cbn [flows queue]. rewrite Q, km_find_put, km_find_set.
      destruct (N.eqb_spec k k'); [congruence|reflexivity]. }
    split.
    + repeat split; cbn [flows queue].
      * apply km_put_NoDup. assumption.
      * unfold pq_set_inactive. rewrite Q, km_keys_set. assumption.
      * unfold pq_set_inactive. rewrite Q, km_find_put, km_find_set, Q.
        destruct (N.eqb_spec k k0); [discriminate|apply E].
      * unfold pq_set_inactive. rewrite Q, km_find_put, km_find_set, Q.
        destruct (N.eqb_spec k k0); [discriminate|apply E].
    + unfold check_rec. rewrite !andb_true_iff. repeat split.
      * apply forallb_forall. intros k' _. destruct (N.eqb_spec k' k); [reflexivity|]. cbn.
        unfold same_at. apply entry_eqb_eq. apply Oth. assumption.
      * unfold km_mem. cbn [flows queue]. rewrite km_find_put, N.eqb_refl. reflexivity.
      * cbn [flows queue]. unfold pq_set_inactive. rewrite Q, km_find_set, N.eqb_refl, Q. apply dl_eqb_refl.
  - (* new flow *)
    assert (Q : km_find k (queue pre) = None) by (apply E; assumption).
    assert (Oth : forall k', k' <> k ->
              entry_of (mkSt (km_put k f (flows pre)) (pq_push k (now + pA P, now + pI P) (queue pre))) k' = entry_of pre k').
    { intros k' NE. unfold entry_of, pq_push. cbn [flows queue]. rewrite km_find_put, km_find_push.
      destruct (N.eqb_spec k k'); [congruence|]. destruct (km_find k' (queue pre)); reflexivity. }
    split.
    + repeat split; cbn [flows queue].
      * apply km_put_NoDup. assumption.
      * apply km_push_NoDup; assumption.
      * unfold pq_push. rewrite km_find_put, km_find_push.
        destruct (N.eqb_spec k k0); [discriminate|]. intros G. apply E in G. rewrite G. reflexivity.
      * unfold pq_push. rewrite km_find_put, km_find_push.
        destruct (N.eqb_spec k k0) as [->|NE]; [rewrite Q; discriminate|].
        destruct (km_find k0 (queue pre)) eqn:G; [discriminate|]. intros _. apply E. assumption.
    + unfold check_rec. rewrite !andb_true_iff. repeat split.
      * apply forallb_forall. intros k' _. destruct (N.eqb_spec k' k); [reflexivity|]. cbn.
        unfold same_at. apply entry_eqb_eq. apply Oth. assumption.
      * unfold km_mem. cbn [flows queue]. rewrite km_find_put, N.eqb_refl. reflexivity.
      * cbn [flows queue]. unfold pq_push. rewrite km_find_push, Q, N.eqb_refl. apply dl_eqb_refl.
Qed.

Lemma unchanged_refl s : unchanged s s = true.
Proof. unfold unchanged. apply forallb_forall. intros k _. apply entry_eqb_refl. Qed.

Lemma expiry_spec_eq P now s : get_expiry P now s = expiry_spec P now s.
Proof.
  unfold get_expiry, expiry_spec. destruct (min_deadline (queue s)).
  - destruct (Z.ltb_spec (pME P + (z - now)) 0), (Z.leb_spec 0 (pME P + (z - now))); lia.
  - destruct (Z.ltb_spec (pA P) (pI P)); lia.
Qed.

(* ---- one step, then whole histories ---- *)
Lemma step_ok P now o pre now' r post : wf_params P = true ->
  Inv pre -> step Fixed P now o pre = Done now' r post ->
  Inv post /\ check_step P now o r pre post = true /\ now' = now + op_advance o.
Proof.
  intros WF HI H. destruct o as [k rec|d|fails picks|]; cbn in H.
  - destruct (add_or_update P now k rec pre) eqn:A; try discriminate. injection H as <- <- <-.
    destruct (check_rec_ok _ _ _ _ _ _ HI A) as [I C]. split; [assumption|]. split; [|cbn; lia].
    unfold check_step. rewrite (inv_b_of_Inv _ I), C. reflexivity.
  - injection H as <- <- <-. split; [assumption|]. split; [|reflexivity].
    unfold check_step. rewrite (inv_b_of_Inv _ HI), unchanged_refl. reflexivity.
  - unfold scan in H. destruct (scan_loop Fixed P now fails picks pre []) as [[[s' cbs] err]|] eqn:S; [|discriminate].
    injection H as <- <- <-. pose proof (scan_loop_spec P now fails WF _ _ _ _ _ _ HI S) as SP.
    split; [apply SP|]. split; [|cbn; lia]. unfold check_step.
    rewrite (inv_b_of_Inv _ (proj1 SP)). cbn. apply check_scan_of_post; assumption.
  - injection H as <- <- <-. split; [assumption|]. split; [|cbn; lia].
    unfold check_step. rewrite (inv_b_of_Inv _ HI), unchanged_refl, expiry_spec_eq, Z.eqb_refl. reflexivity.
Qed.

Lemma run_holds P : wf_params P = true ->
  forall ops now s, Inv s -> holds_from P ops (fst (run Fixed P ops now s)) now s = true.
Proof.
  intros WF. induction ops as [|o ops IH]; intros now s HI; [reflexivity|].
  cbn [run]. destruct (step Fixed P now o s) as [now' r s'| |] eqn:S; [|reflexivity|reflexivity].
  destruct (step_ok _ _ _ _ _ _ _ WF HI S) as (I' & C & ->).
  specialize (IH (now + op_advance o) s' I').
  destruct (run Fixed P ops (now + op_advance o) s') as [tr e]. cbn in *. rewrite C, IH. reflexivity.
Qed.

Lemma C06_expiry_lemma P ops : wf_params P = true ->
  C06_holds_on P ops (fst (run Fixed P ops 0 init)) = true.
Proof. intros WF. apply run_holds; [assumption|apply Inv_init]. Qed.

Lemma run_inv P : wf_params P = true ->
  forall ops now s, Inv s -> forall r s', In (r, s') (fst (run Fixed P ops now s)) -> Inv s'.
Proof.
  intros WF. induction ops as [|o ops IH]; intros now s HI r s' I; [destruct I|].
  cbn [run] in I. destruct (step Fixed P now o s) as [now' r0 s0| |] eqn:S; [|destruct I|destruct I].
  destruct (step_ok _ _ _ _ _ _ _ WF HI S) as (I' & _ & _).
  specialize (IH now' s0 I' r s'). destruct (run Fixed P ops now' s0) as [tr e]. cbn in *.
  destruct I as [[= <- <-]|I]; [assumption|auto].
Qed.

(* ---- corollaries in the words of the property ---- *)
(* (I2) in an error-free scan the callback runs on k iff k is ready and one of its deadlines has passed *)
Lemma scan_callbacks_iff P now fails picks s s' cbs : wf_params P = true -> Inv s ->
  scan Fixed P now fails picks s = Some (s', cbs, false) ->
  forall k, In k cbs <-> (ready_in s k = true /\ due_in s now k = true).
Proof.
  intros WF HI H k. destruct (scan_loop_spec P now fails WF _ _ _ _ _ _ HI H)
    as (_ & _ & Due & _ & Cbs & (Co & _) & _). cbn in Cbs. subst cbs.
  rewrite filter_In. split.
  - intros [I R]. split; [assumption|apply Due, I].
  - intros [R D]. split; [|assumption]. unfold due_in in D.
    destruct (km_find k (queue s)) as [dk|] eqn:F; [|discriminate].
    apply (Co k dk F). apply Z.leb_le. assumption.
Qed.

(* the loop terminates: no more pops than queued items *)
Lemma scan_picks_bounded P now fails picks s r : wf_params P = true -> Inv s ->
  scan Fixed P now fails picks s = Some r -> (List.length picks <= List.length (queue s))%nat.
Proof.
  intros WF HI H. destruct r as [[s' cbs] err].
  destruct (scan_loop_spec P now fails WF _ _ _ _ _ _ HI H) as (_ & ND & Due & _).
  replace (List.length (queue s)) with (List.length (km_keys (queue s))) by apply map_length.
  apply NoDup_incl_length; [assumption|]. intros k I. apply Due in I. unfold due_in in I.
  apply km_find_In_keys. destruct (km_find k (queue s)); [discriminate|discriminate].
Qed.

(* (I4) *)
Lemma scan_future P now fails picks s s' cbs : wf_params P = true -> Inv s ->
  scan Fixed P now fails picks s = Some (s', cbs, false) ->
  forall k d, km_find k (queue s') = Some d -> now < fst d /\ now < snd d.
Proof.
  intros WF HI H. destruct (scan_loop_spec P now fails WF _ _ _ _ _ _ HI H) as (_ & _ & _ & _ & _ & _ & _ & Fut).
  apply Fut. reflexivity.
Qed.
