(* C14: invariants of the exporter interleaving model (Model/ConcExporter.v), over every
   schedule. No axioms. *)
From Coq Require Import List Bool Arith NArith Lia.
From Verif.Model Require Import ConcExporter.
Import ListNotations.

(* ---- frame facts about the sub-machines ---- *)
Lemma close_step_frame : forall me wait h c h' r, close_step me wait h c = (h', r) ->
  wire h' = wire h /\ seq h' = seq h /\ send_lock h' = send_lock h /\ templates h' = templates h /\
  app_log h' = app_log h /\ rounds h' = rounds h /\ (closed h = true -> closed h' = true) /\
  wg h' = wg h /\ tick_r h' = tick_r h /\ tick_k h' = tick_k h /\ peer_closed h' = peer_closed h /\ noticed h' = noticed h.
Proof.
  intros me wait h c h' r H. destruct c, wait; cbn in H.
  all: try (destruct (is_closed h); inversion H; subst; cbn; repeat split; auto; fail).
  all: try (inversion H; subst; cbn; repeat split; auto; fail).
  all: destruct (wg h) eqn:E; inversion H; subst; cbn; repeat split; auto.
Qed.

Definition asp (a : aphase) : option sphase := match a with ASending p => Some p | _ => None end.
Definition rsp (r : rstate) : option sphase := match r with RSend _ (Some p) => Some p | _ => None end.
Definition holds (p : option sphase) : bool :=
  match p with Some (PInc _) | Some (PWrite _ _) | Some (PUnlock _ _) => true | _ => false end.
Definition is_write (p : option sphase) : bool := match p with Some (PWrite _ _) => true | _ => false end.
Definition wr_ok (h : shared) (p : option sphase) : Prop :=
  match p with Some (PWrite s hdr) => hdr = seq h /\ seq h = add32 (wsum (wire h)) (recs s) | _ => True end.

Definition after (p : sphase) (r : sres) : option sphase :=
  match r with SCont p' => Some p' | SDone _ => None | SBlocked => Some p end.

Ltac close_case H :=
  match type of H with close_step ?me ?w ?h ?c = _ =>
    let F := fresh "F" in pose proof (close_step_frame _ _ _ _ _ _ H) as F;
    destruct F as (F1 & F2 & F3 & F4 & F5 & F6 & F7 & F8 & F9 & F10 & F11 & F12) end.

Ltac crunch :=
  cbn in *; try discriminate; try congruence;
  repeat match goal with
         | |- _ /\ _ => split
         | |- _ -> _ => intro
         | H : ?a = ?a -> _ |- _ => specialize (H eq_refl)
         | H : ?a = ?b -> _, H' : ?a = ?b |- _ => specialize (H H')
         | H : _ /\ _ |- _ => destruct H
         | H : true = false -> _ |- _ => clear H
         end; cbn in *; subst; try discriminate; try congruence; auto.

(* ---- A: the send mutex, the sequence counter and the wire ---- *)
Definition invA' (h : shared) (pa pr : option sphase) : Prop :=
  send_lock h = (if holds pa then Some 0 else if holds pr then Some 1 else None) /\
  holds pa && holds pr = false /\
  wire_seq_ok (wire h) /\
  (closed h = false ->
     wr_ok h pa /\ wr_ok h pr /\ (is_write pa || is_write pr = false -> seq h = wsum (wire h))).
Definition invA (x : xstate) : Prop := invA' (sh x) (asp (a_ph x)) (rsp (refr x)).

Lemma frameA : forall h h' pa pr, invA' h pa pr ->
  wire h' = wire h -> seq h' = seq h -> send_lock h' = send_lock h -> (closed h = true -> closed h' = true) ->
  invA' h' pa pr.
Proof.
  intros h h' pa pr (A1 & A2 & A3 & A4) W S L C. unfold invA', wr_ok in *.
  rewrite W, S, L. split; [exact A1|]. split; [exact A2|]. split; [exact A3|].
  intros Hc. apply A4. destruct (closed h) eqn:E; auto. rewrite (C eq_refl) in Hc; discriminate.
Qed.

Lemma startA_app : forall h pr s, invA' h None pr -> invA' h (Some (PCheck s)) pr.
Proof. intros h pr s (A1 & A2 & A3 & A4). unfold invA' in *. destruct pr as [[]|]; crunch. Qed.
Lemma startA_ref : forall h pa s, invA' h pa None -> invA' h pa (Some (PCheck s)).
Proof. intros h pa s (A1 & A2 & A3 & A4). unfold invA' in *. destruct pa as [[]|]; crunch. Qed.

Lemma sendA_app : forall h p pr h' r, invA' h (Some p) pr -> send_step 0 h p = (h', r) -> invA' h' (after p r) pr.
Proof.
  intros h p pr h' r (A1 & A2 & A3 & A4) E. unfold invA' in *.
  destruct p as [[tid|tid n]|s|s|s hdr|s ok]; cbn in E.
  - destruct (memN tid (templates h)); inversion E; subst; destruct pr as [[]|]; crunch.
  - destruct (memN tid (templates h)); inversion E; subst; destruct pr as [[]|]; crunch.
  - destruct (send_lock h) eqn:EL; inversion E; subst; destruct pr as [[]|]; crunch.
  - inversion E; subst; destruct pr as [[]|]; crunch.
  - destruct (closed h) eqn:EC; inversion E; subst; destruct pr as [[]|]; destruct s; crunch.
  - inversion E; subst; destruct pr as [[]|]; crunch.
Qed.

Lemma sendA_ref : forall h p pa h' r, invA' h pa (Some p) -> send_step 1 h p = (h', r) -> invA' h' pa (after p r).
Proof.
  intros h p pa h' r (A1 & A2 & A3 & A4) E. unfold invA' in *.
  destruct p as [[tid|tid n]|s|s|s hdr|s ok]; cbn in E.
  - destruct (memN tid (templates h)); inversion E; subst; destruct pa as [[]|]; crunch.
  - destruct (memN tid (templates h)); inversion E; subst; destruct pa as [[]|]; crunch.
  - destruct (send_lock h) eqn:EL; inversion E; subst; destruct pa as [[]|]; crunch.
  - inversion E; subst; destruct pa as [[]|]; crunch.
  - destruct s; destruct (rounds h) eqn:ER; destruct (closed h) eqn:EC; cbn in E; inversion E; subst; destruct pa as [[]|]; crunch.
  - inversion E; subst; destruct pa as [[]|]; crunch.
Qed.

Ltac fr := eapply frameA; [eassumption | cbn; congruence | cbn; congruence | cbn; congruence | cbn; auto].

Lemma invA_step : forall x a, invA x -> invA (xstep x a).
Proof.
  intros [h todo aph r k cl] a I. unfold invA in *; cbn in I.
  destruct a as [t choice| | |]; [destruct t as [|[|[|t]]]|..]; cbn [xstep].
  - unfold step_app; cbn [a_ph a_todo sh refr chk closers]. destruct aph as [|p|c]; cbn [asp] in *.
    + destruct todo as [|[s|] todo]; cbn [asp]; auto.
    + destruct (send_step 0 h p) as [h' rr] eqn:E. pose proof (sendA_app _ _ _ _ _ I E) as J. destruct rr; cbn in *; auto.
    + destruct (close_step 0 true h c) as [h' rr] eqn:E. close_case E. destruct rr; cbn; auto; fr.
  - unfold step_refr; cbn [a_ph a_todo sh refr chk closers]. destruct r as [| |td [p|]|c|]; cbn [rsp] in *.
    + destruct (stop_closed h), (tick_r h); try destruct choice; cbn; auto; fr.
    + cbn. fr.
    + destruct (send_step 1 h p) as [h' rr] eqn:E. pose proof (sendA_ref _ _ _ _ _ I E) as J.
      destruct rr as [p'|[|]|]; destruct td; cbn in *; auto.
    + destruct td as [|t td]; cbn.
      * destruct (rounds h); fr.
      * cbn [rsp]. try exact I; apply startA_ref; auto.
    + destruct (close_step 1 false h c) as [h' rr] eqn:E. close_case E. destruct rr; cbn; auto; fr.
    + cbn; auto.
  - unfold step_chk; cbn [a_ph a_todo sh refr chk closers]. destruct k as [| |c|].
    + destruct (stop_closed h), (tick_k h); try destruct choice; cbn; auto; fr.
    + destruct (peer_closed h); cbn; auto; fr.
    + destruct (close_step 2 false h c) as [h' rr] eqn:E. close_case E. destruct rr; cbn; auto; fr.
    + cbn; auto.
  - unfold step_closer; cbn [a_ph a_todo sh refr chk closers]. destruct (cl (S (S (S t)))) as [n [c|]].
    + destruct (close_step (S (S (S t))) true h c) as [h' rr] eqn:E. close_case E. destruct rr; destruct n; cbn; auto; fr.
    + destruct n; cbn; auto.
  - cbn. fr.
  - cbn. fr.
  - cbn. fr.
Qed.

(* ---- B: the application's log, its order, and monotonicity of the results ---- *)
Definition invB' (prog : list aop) (h : shared) (aph : aphase) (todo : list aop) : Prop :=
  map m_set (filter (from 0) (wire h)) = map fst (filter is_ok (app_log h)) /\
  mono (app_log h) /\
  (closed h = false -> forallb (fun e => negb (is_errwrite e)) (app_log h) = true) /\
  rev (map fst (app_log h)) ++ pending aph ++ sends todo = sends prog.
Definition invB (prog : list aop) (x : xstate) : Prop := invB' prog (sh x) (a_ph x) (a_todo x).

Lemma frameB : forall prog h h' aph todo, invB' prog h aph todo ->
  filter (from 0) (wire h') = filter (from 0) (wire h) -> app_log h' = app_log h -> (closed h = true -> closed h' = true) -> invB' prog h' aph todo.
Proof.
  intros prog h h' aph todo (B1 & B2 & B3 & B4) W L C. unfold invB' in *. rewrite W, L.
  split; [exact B1|]. split; [exact B2|]. split; [|exact B4].
  intros Hc. apply B3. destruct (closed h) eqn:E; auto. rewrite (C eq_refl) in Hc; discriminate.
Qed.

Lemma frameB_w : forall prog h h' aph todo, invB' prog h aph todo ->
  wire h' = wire h -> app_log h' = app_log h -> (closed h = true -> closed h' = true) -> invB' prog h' aph todo.
Proof. intros. eapply frameB; eauto. congruence. Qed.

Ltac finB := repeat split; auto; try discriminate; try congruence; try (intros; discriminate); try (rewrite <- app_assoc; cbn; assumption).

Lemma sendB_app : forall prog h p todo h' r, invB' prog h (ASending p) todo -> send_step 0 h p = (h', r) ->
  invB' prog h' (match r with SCont p' => ASending p' | SDone _ => AIdle | SBlocked => ASending p end) todo.
Proof.
  intros prog h p todo h' r (B1 & B2 & B3 & B4) E. unfold invB' in *.
  destruct p as [[tid|tid n]|s|s|s hdr|s ok]; cbn in E.
  - destruct (memN tid (templates h)); inversion E; subst; crunch.
  - destruct (memN tid (templates h)); inversion E; subst; cbn in *; [crunch|]. finB.
  - destruct (send_lock h); inversion E; subst; crunch.
  - inversion E; subst; crunch.
  - destruct (closed h) eqn:EC; inversion E; subst; cbn in *.
    + finB.
    + specialize (B3 eq_refl). finB.
  - inversion E; subst; crunch.
Qed.

Lemma sendB_ref : forall prog h p aph todo h' r, invB' prog h aph todo -> send_step 1 h p = (h', r) -> invB' prog h' aph todo.
Proof.
  intros prog h p aph todo h' r I E. eapply frameB; [exact I|..];
  destruct p as [[tid|tid n]|s|s|s hdr|s ok]; cbn in E;
    try (destruct (memN _ (templates h))); try (destruct (send_lock h));
    try (destruct s; destruct (rounds h); destruct (closed h) eqn:EC; cbn in E);
    inversion E; subst; cbn; auto; congruence.
Qed.

Ltac frb := eapply frameB_w; [eassumption | cbn; congruence | cbn; congruence | cbn; auto].

Lemma invB_step : forall prog x a, invB prog x -> invB prog (xstep x a).
Proof.
  intros prog [h todo aph r k cl] a I. unfold invB in *; cbn in I.
  destruct a as [t choice| | |]; [destruct t as [|[|[|t]]]|..]; cbn [xstep].
  - unfold step_app; cbn [a_ph a_todo sh refr chk closers]. destruct aph as [|p|c].
    + destruct todo as [|[s|] todo]; cbn; auto.
    + destruct (send_step 0 h p) as [h' rr] eqn:E. pose proof (sendB_app _ _ _ _ _ _ I E) as J. destruct rr; cbn in *; auto.
    + destruct (close_step 0 true h c) as [h' rr] eqn:E. close_case E. destruct rr; cbn; auto;
        (apply frameB_w with (h := h); [|cbn; congruence|cbn; congruence|cbn; auto]); destruct I as (B1 & B2 & B3 & B4); unfold invB'; cbn in *; auto.
  - unfold step_refr; cbn [a_ph a_todo sh refr chk closers]. destruct r as [| |td [p|]|c|].
    + destruct (stop_closed h), (tick_r h); try destruct choice; cbn; auto; frb.
    + cbn. frb.
    + destruct (send_step 1 h p) as [h' rr] eqn:E. pose proof (sendB_ref _ _ _ _ _ _ _ I E) as J.
      destruct rr as [p'|[|]|]; destruct td; cbn in *; auto.
    + destruct td as [|t td]; cbn; auto. destruct (rounds h); frb.
    + destruct (close_step 1 false h c) as [h' rr] eqn:E. close_case E. destruct rr; cbn; auto; frb.
    + cbn; auto.
  - unfold step_chk; cbn [a_ph a_todo sh refr chk closers]. destruct k as [| |c|].
    + destruct (stop_closed h), (tick_k h); try destruct choice; cbn; auto; frb.
    + destruct (peer_closed h); cbn; auto; frb.
    + destruct (close_step 2 false h c) as [h' rr] eqn:E. close_case E. destruct rr; cbn; auto; frb.
    + cbn; auto.
  - unfold step_closer; cbn [a_ph a_todo sh refr chk closers]. destruct (cl (S (S (S t)))) as [n [c|]].
    + destruct (close_step (S (S (S t))) true h c) as [h' rr] eqn:E. close_case E. destruct rr; destruct n; cbn; auto; frb.
    + destruct n; cbn; auto.
  - cbn. frb.
  - cbn. frb.
  - cbn. frb.
Qed.

(* ---- C: refresh rounds ---- *)
Definition cur_t (p : option sphase) : list N :=
  match p with
  | Some (PCheck (STemplate t)) | Some (PLock (STemplate t)) | Some (PInc (STemplate t))
  | Some (PWrite (STemplate t) _) | Some (PUnlock (STemplate t) false) => [t]
  | _ => []
  end.
Definition set_of (p : sphase) : setk :=
  match p with PCheck s | PLock s | PInc s | PWrite s _ | PUnlock s _ => s end.
Definition tmpl_phase (p : option sphase) : Prop :=
  match p with Some q => exists t, set_of q = STemplate t | None => True end.

Fixpoint chain (cur : list N) (rs : list round) : Prop :=
  match rs with [] => True | r :: rest => incl (r_snap r) cur /\ chain (r_snap r) rest end.

Definition invC' (h : shared) (r : rstate) : Prop :=
  map m_set (filter (from 1) (wire h)) = map STemplate (flat_map r_sent (rounds h)) /\
  Forall (fun rd => r_complete rd = true -> rev (r_sent rd) = r_snap rd) (rounds h) /\
  (match r with
   | RSend todo p => tmpl_phase p /\ exists rd rest, rounds h = rd :: rest /\ r_complete rd = false /\
                                    r_snap rd = rev (r_sent rd) ++ cur_t p ++ todo
   | _ => True
   end) /\
  chain (templates h) (rounds h).
Definition invC (x : xstate) : Prop := invC' (sh x) (refr x).

Lemma chain_incl : forall rs cur cur', chain cur rs -> incl cur cur' -> chain cur' rs.
Proof. intros [|r rs] cur cur' H I; cbn in *; auto. destruct H; split; auto. eapply incl_tran; eauto. Qed.

Lemma frameC : forall h h' r, invC' h r ->
  filter (from 1) (wire h') = filter (from 1) (wire h) -> rounds h' = rounds h -> incl (templates h) (templates h') -> invC' h' r.
Proof.
  intros h h' r (C1 & C2 & C3 & C4) W R T. unfold invC' in *. rewrite W, R.
  split; [exact C1|]. split; [exact C2|]. split; [exact C3|]. eapply chain_incl; eauto.
Qed.
Lemma frameC_w : forall h h' r, invC' h r ->
  wire h' = wire h -> rounds h' = rounds h -> templates h' = templates h -> invC' h' r.
Proof. intros. eapply frameC; eauto; [congruence | rewrite H2; apply incl_refl]. Qed.

Lemma sendC_app : forall h p r h' rr, invC' h r -> send_step 0 h p = (h', rr) -> invC' h' r.
Proof.
  intros h p r h' rr I E. eapply frameC; [exact I|..];
  destruct p as [[tid|tid n]|s|s|s hdr|s ok]; cbn in E;
    try (destruct (memN _ (templates h))); try (destruct (send_lock h)); try (destruct (closed h) eqn:EC; cbn in E);
    inversion E; subst; cbn; auto; try apply incl_refl; try (apply incl_appl, incl_refl).
Qed.

Lemma sendC_ref : forall h p td h' rr, invC' h (RSend td (Some p)) -> send_step 1 h p = (h', rr) ->
  invC' h' (match rr with SCont p' => RSend td (Some p') | SDone true => RSend td None | SDone false => RClose CSwap | SBlocked => RSend td (Some p) end).
Proof.
  intros h p td h' rr (C1 & C2 & (TP & rd & rest & ER & EC & ES) & C4) E. unfold invC' in *.
  destruct TP as (t & ET).
  destruct p as [s|s|s|s hdr|s ok]; cbn in ET; subst s; cbn in E.
  - destruct (memN t (templates h)); inversion E; subst; cbn in *; repeat split; eauto 10.
    eapply chain_incl; eauto. apply incl_appl, incl_refl.
  - destruct (send_lock h); inversion E; subst; cbn in *; repeat split; eauto 10.
  - inversion E; subst; cbn in *; repeat split; eauto 10.
  - rewrite ER in E. destruct (closed h) eqn:ECl; cbn in E; inversion E; subst; cbn in *.
    + repeat split; eauto 10.
    + rewrite ER in *. cbn in *. repeat split; eauto.
      * congruence.
      * inversion C2; subst. constructor; auto. cbn. intros X. congruence.
      * exists (MkRound (r_snap rd) (t :: r_sent rd) (r_complete rd)), rest. cbn. repeat split; auto.
        rewrite ES. rewrite <- app_assoc. reflexivity.
      * apply C4.
      * apply C4.
  - destruct ok; inversion E; subst; cbn in *; repeat split; eauto 10.
Qed.

Ltac frc := eapply frameC_w; [eassumption | cbn; congruence | cbn; congruence | cbn; congruence].

Lemma invC_step : forall x a, invC x -> invC (xstep x a).
Proof.
  intros [h todo aph r k cl] a I. unfold invC in *; cbn in I.
  destruct a as [t choice| | |]; [destruct t as [|[|[|t]]]|..]; cbn [xstep].
  - unfold step_app; cbn [a_ph a_todo sh refr chk closers]. destruct aph as [|p|c].
    + destruct todo as [|[s|] todo]; cbn; auto.
    + destruct (send_step 0 h p) as [h' rr] eqn:E. pose proof (sendC_app _ _ _ _ _ I E) as J. destruct rr; cbn in *; auto.
    + destruct (close_step 0 true h c) as [h' rr] eqn:E. close_case E. destruct rr; cbn; auto; frc.
  - unfold step_refr; cbn [a_ph a_todo sh refr chk closers]. destruct r as [| |td [p|]|c|].
    + destruct I as (C1 & C2 & _ & C4).
      destruct (stop_closed h), (tick_r h); try destruct choice; unfold invC'; cbn; auto.
    + destruct I as (C1 & C2 & _ & C4). unfold invC'; cbn. repeat split; auto.
      * constructor; auto. cbn. discriminate.
      * exists (MkRound (templates h) [] false), (rounds h). cbn. auto.
      * apply incl_refl.
    + destruct (send_step 1 h p) as [h' rr] eqn:E. pose proof (sendC_ref _ _ _ _ _ I E) as J.
      destruct rr as [p'|[|]|]; destruct td; cbn in *; auto.
    + destruct I as (C1 & C2 & (_ & rd & rest & ER & EC & ES) & C4). destruct td as [|t td]; cbn.
      * rewrite ER. unfold invC'; cbn. rewrite ER in *. cbn in *. repeat split; auto.
        -- inversion C2; subst. constructor; auto. cbn. intros _. rewrite ES. rewrite app_nil_r. reflexivity.
        -- apply C4.
        -- apply C4.
      * unfold invC'; cbn. repeat split; eauto 10.
    + destruct I as (C1 & C2 & _ & C4).
      destruct (close_step 1 false h c) as [h' rr] eqn:E. close_case E.
      assert (invC' h' RDone) as J by (unfold invC'; rewrite F1, F6, F4; auto).
      destruct rr; cbn; auto; unfold invC' in *; cbn; tauto.
    + cbn; auto.
  - unfold step_chk; cbn [a_ph a_todo sh refr chk closers]. destruct k as [| |c|].
    + destruct (stop_closed h), (tick_k h); try destruct choice; cbn; auto; frc.
    + destruct (peer_closed h); cbn; auto; frc.
    + destruct (close_step 2 false h c) as [h' rr] eqn:E. close_case E. destruct rr; cbn; auto; frc.
    + cbn; auto.
  - unfold step_closer; cbn [a_ph a_todo sh refr chk closers]. destruct (cl (S (S (S t)))) as [n [c|]].
    + destruct (close_step (S (S (S t))) true h c) as [h' rr] eqn:E. close_case E. destruct rr; destruct n; cbn; auto; frc.
    + destruct n; cbn; auto.
  - cbn. frc.
  - cbn. frc.
  - cbn. frc.
Qed.

(* ---- D: closing happens once, whoever calls it and however often ---- *)
Definition cph_of (x : xstate) (t : nat) : option cphase :=
  match t with
  | 0 => match a_ph x with AClosing c => Some c | _ => None end
  | 1 => match refr x with RClose c => Some c | _ => None end
  | 2 => match chk x with KClose c => Some c | _ => None end
  | _ => snd (closers x t)
  end.
Definition cnorm (c : option cphase) : nat := match c with Some CStop => 1 | Some CConn => 2 | _ => 0 end.

Definition invD' (h : shared) (ph : nat -> nat) : Prop :=
  panicked h = false /\
  (is_closed h = false -> winner h = None /\ n_stop h = 0 /\ n_conn h = 0 /\ closed h = false /\ stop_closed h = false) /\
  (is_closed h = true -> exists w, winner h = Some w /\
      match ph w with
      | 1 => n_stop h = 0 /\ n_conn h = 0 /\ stop_closed h = false /\ closed h = false
      | 2 => n_stop h = 1 /\ n_conn h = 0 /\ stop_closed h = true /\ closed h = false
      | _ => n_stop h = 1 /\ n_conn h = 1 /\ stop_closed h = true /\ closed h = true
      end) /\
  (forall t, ph t <> 0 -> winner h = Some t).
Definition invD (x : xstate) : Prop := invD' (sh x) (fun t => cnorm (cph_of x t)).

Definition same_close (h h' : shared) : Prop :=
  panicked h' = panicked h /\ is_closed h' = is_closed h /\ winner h' = winner h /\ n_stop h' = n_stop h /\
  n_conn h' = n_conn h /\ closed h' = closed h /\ stop_closed h' = stop_closed h.

Lemma frameD : forall h h' ph ph', invD' h ph -> same_close h h' -> (forall t, ph' t = ph t) -> invD' h' ph'.
Proof.
  intros h h' ph ph' (D1 & D2 & D3 & D4) (S1 & S2 & S3 & S4 & S5 & S6 & S7) P. unfold invD'.
  rewrite S1, S2, S3, S4, S5, S6, S7. repeat split; auto; try (apply D2; auto).
  - intros Hc. destruct (D3 Hc) as (w & Hw & M). exists w. rewrite P. auto.
  - intros t Ht. rewrite P in Ht. auto.
Qed.

Lemma same_close_refl : forall h, same_close h h.
Proof. intros. unfold same_close. tauto. Qed.
Lemma same_close_wg : forall h, same_close h (wg_done h).
Proof. intros. unfold same_close. cbn. tauto. Qed.
Lemma same_close_trans : forall a b c, same_close a b -> same_close b c -> same_close a c.
Proof. unfold same_close. intros a b c (A1&A2&A3&A4&A5&A6&A7) (B1&B2&B3&B4&B5&B6&B7). repeat split; congruence. Qed.

Lemma log_result_close : forall me h s r, same_close h (log_result me h s r).
Proof.
  intros [|me] h s r; unfold log_result, same_close; [cbn; tauto|].
  destruct r, s, (rounds h); cbn; tauto.
Qed.

Lemma send_step_close : forall me h p h' r, send_step me h p = (h', r) -> same_close h h'.
Proof.
  intros me h p h' r E.
  destruct p as [[tid|tid n]|s|s|s hdr|s ok]; cbn in E;
    try (destruct (memN _ (templates h))); try (destruct (send_lock h)); try (destruct (closed h));
    inversion E; subst; try apply log_result_close; try apply same_close_refl;
    try (eapply same_close_trans; [|apply log_result_close]); unfold same_close; cbn; tauto.
Qed.

Lemma closeD : forall h ph ph' me wait c h' rr, invD' h ph -> ph me = cnorm (Some c) ->
  close_step me wait h c = (h', rr) ->
  (forall t, t <> me -> ph' t = ph t) ->
  ph' me = cnorm (match rr with CCont c' => Some c' | CReturned => None | CBlocked => Some c end) ->
  invD' h' ph'.
Proof.
  intros h ph ph' me wait c h' rr (D1 & D2 & D3 & D4) Pme E Po Pn. unfold invD' in *.
  assert (forall t, ph' t <> 0 -> t <> me -> winner h = Some t) as D4' by (intros t A B; apply D4; rewrite <- Po; auto).
  destruct c; cbn in E, Pme.
  - (* swap *)
    destruct (is_closed h) eqn:EI.
    + assert (h' = h /\ ph' me = 0) as (-> & Z) by (destruct wait; inversion E; subst; cbn in Pn; auto).
      rewrite EI. repeat split; auto; try discriminate.
      * intros _. destruct (D3 eq_refl) as (w & Hw & M). exists w. split; auto.
        destruct (Nat.eq_dec w me) as [->|Hne]; [rewrite Z; rewrite Pme in M; exact M | rewrite Po; auto].
      * intros t Ht. destruct (Nat.eq_dec t me) as [->|Hne]; [congruence | auto].
    + inversion E; subst. cbn in *. destruct (D2 eq_refl) as (W & N1 & N2 & Cl & St).
      repeat split; auto; try discriminate.
      * intros _. exists me. rewrite Pn. auto.
      * intros t Ht. destruct (Nat.eq_dec t me) as [->|Hne]; [reflexivity|]. rewrite (D4' t Ht Hne) in W. discriminate.
  - (* close(stopCh) *)
    assert (winner h = Some me) as W by (apply D4; rewrite Pme; discriminate).
    destruct (is_closed h) eqn:EI; [|destruct (D2 eq_refl) as (W' & _); congruence].
    destruct (D3 eq_refl) as (w & Hw & M). assert (w = me) by congruence. subst w. rewrite Pme in M.
    destruct M as (N1 & N2 & St & Cl). inversion E; subst. cbn in *. rewrite EI, D1, St.
    repeat split; auto; try discriminate.
    + intros _. exists me. rewrite Pn. repeat split; auto; try (rewrite N1; reflexivity); try congruence.
    + intros t Ht. destruct (Nat.eq_dec t me) as [->|Hne]; auto.
  - (* conn.Close *)
    assert (winner h = Some me) as W by (apply D4; rewrite Pme; discriminate).
    destruct (is_closed h) eqn:EI; [|destruct (D2 eq_refl) as (W' & _); congruence].
    destruct (D3 eq_refl) as (w & Hw & M). assert (w = me) by congruence. subst w. rewrite Pme in M.
    destruct M as (N1 & N2 & St & Cl).
    assert (h' = upd_closed h true /\ ph' me = 0) as (-> & Z) by (destruct wait; inversion E; subst; cbn in Pn; auto).
    cbn in *. rewrite EI. repeat split; auto; try discriminate.
    + intros _. exists me. rewrite Z. repeat split; auto; try (rewrite N2; reflexivity); try congruence.
    + intros t Ht. destruct (Nat.eq_dec t me) as [->|Hne]; [congruence | auto].
  - (* wg.Wait *)
    assert (h' = h /\ ph' me = 0) as (-> & Z) by (destruct (wg h); inversion E; subst; cbn in Pn; auto).
    split; [exact D1|]. split; [exact D2|]. split.
    + intros Hc. destruct (D3 Hc) as (w & Hw & M). exists w. split; auto.
      destruct (Nat.eq_dec w me) as [->|Hne]; [rewrite Z; rewrite Pme in M; exact M | rewrite Po; auto].
    + intros t Ht. destruct (Nat.eq_dec t me) as [->|Hne]; [congruence | auto].
Qed.

Lemma upd_closer_same : forall f t v, upd_closer f t v t = v.
Proof. intros. unfold upd_closer. rewrite Nat.eqb_refl. reflexivity. Qed.
Lemma upd_closer_other : forall f t v u, u <> t -> upd_closer f t v u = f u.
Proof. intros. unfold upd_closer. destruct (Nat.eqb_spec u t); [contradiction|reflexivity]. Qed.

Ltac others := let t := fresh "t" in let H := fresh "H" in
  intros t H; destruct t as [|[|[|t]]]; cbn; try reflexivity; try congruence.

Ltac frd := eapply frameD; [eassumption | unfold same_close; cbn; tauto | others].

Lemma invD_step : forall x a, invD x -> invD (xstep x a).
Proof.
  intros [h todo aph r k cl] a I. unfold invD in *; cbn [sh] in I.
  destruct a as [t choice| | |]; [destruct t as [|[|[|t]]]|..]; cbn [xstep].
  - unfold step_app; cbn [a_ph a_todo sh refr chk closers]. destruct aph as [|p|c].
    + destruct todo as [|[s|] todo]; cbn [sh]; auto; (eapply frameD; [exact I | apply same_close_refl | intros [|[|[|t]]]; reflexivity]).
    + destruct (send_step 0 h p) as [h' rr] eqn:E. pose proof (send_step_close _ _ _ _ _ E) as J.
      destruct rr; cbn [sh]; auto; (eapply frameD; [exact I | exact J | intros [|[|[|t]]]; reflexivity]).
    + destruct (close_step 0 true h c) as [h' rr] eqn:E.
      destruct rr; cbn [sh]; auto; (eapply closeD with (me := 0); [exact I | reflexivity | exact E | others | reflexivity]).
  - unfold step_refr; cbn [a_ph a_todo sh refr chk closers]. destruct r as [| |td [p|]|c|].
    + destruct (stop_closed h), (tick_r h); try destruct choice; cbn [sh]; auto;
        (eapply frameD; [exact I | unfold same_close; cbn; tauto | intros [|[|[|t]]]; reflexivity]).
    + cbn [sh]. eapply frameD; [exact I | unfold same_close; cbn; tauto | intros [|[|[|t]]]; reflexivity].
    + destruct (send_step 1 h p) as [h' rr] eqn:E. pose proof (send_step_close _ _ _ _ _ E) as J.
      destruct rr as [p'|[|]|]; destruct td; cbn [sh]; auto; (eapply frameD; [exact I | exact J | intros [|[|[|t]]]; reflexivity]).
    + destruct td as [|t td]; cbn [sh]; [destruct (rounds h)|];
        (eapply frameD; [exact I | unfold same_close; cbn; tauto | intros [|[|[|u]]]; reflexivity]).
    + destruct (close_step 1 false h c) as [h' rr] eqn:E.
      destruct rr; cbn [sh]; auto.
      * eapply closeD with (me := 1); [exact I | reflexivity | exact E | others | reflexivity].
      * eapply frameD with (h := h') (ph := fun t => cnorm (cph_of (MkX h' todo aph RDone k cl) t));
          [ eapply closeD with (me := 1); [exact I | reflexivity | exact E | others | reflexivity] | apply same_close_wg | intros [|[|[|t]]]; reflexivity].
    + exact I.
  - unfold step_chk; cbn [a_ph a_todo sh refr chk closers]. destruct k as [| |c|].
    + destruct (stop_closed h), (tick_k h); try destruct choice; cbn [sh]; auto;
        (eapply frameD; [exact I | unfold same_close; cbn; tauto | intros [|[|[|t]]]; reflexivity]).
    + destruct (peer_closed h); cbn [sh]; (eapply frameD; [exact I | unfold same_close; cbn; tauto | intros [|[|[|t]]]; reflexivity]).
    + destruct (close_step 2 false h c) as [h' rr] eqn:E.
      destruct rr; cbn [sh]; auto.
      * eapply closeD with (me := 2); [exact I | reflexivity | exact E | others | reflexivity].
      * eapply frameD with (h := h') (ph := fun t => cnorm (cph_of (MkX h' todo aph r KDone cl) t));
          [ eapply closeD with (me := 2); [exact I | reflexivity | exact E | others | reflexivity] | apply same_close_wg | intros [|[|[|t]]]; reflexivity].
    + exact I.
  - unfold step_closer; cbn [a_ph a_todo sh refr chk closers]. destruct (cl (S (S (S t)))) as [n [c|]] eqn:ECl.
    + destruct (close_step (S (S (S t))) true h c) as [h' rr] eqn:E.
      destruct rr; destruct n; cbn [sh]; auto;
        (eapply closeD with (me := S (S (S t))); [exact I | cbn; rewrite ECl; reflexivity | exact E
          | intros u Hu; destruct u as [|[|[|u]]]; cbn; try reflexivity; rewrite upd_closer_other by auto; reflexivity
          | cbn; rewrite upd_closer_same; reflexivity]).
    + destruct n; cbn [sh]; auto.
      eapply frameD; [exact I | apply same_close_refl |].
      intros [|[|[|u]]]; cbn; try reflexivity.
      destruct (Nat.eq_dec (S (S (S u))) (S (S (S t)))) as [Eq|Ne].
      * rewrite Eq, upd_closer_same, ECl. reflexivity.
      * rewrite upd_closer_other by auto. reflexivity.
  - cbn [with_sh sh]. eapply frameD; [exact I | unfold same_close; cbn; tauto | intros [|[|[|t]]]; reflexivity].
  - cbn [with_sh sh]. eapply frameD; [exact I | unfold same_close; cbn; tauto | intros [|[|[|t]]]; reflexivity].
  - cbn [with_sh sh]. eapply frameD; [exact I | unfold same_close; cbn; tauto | intros [|[|[|t]]]; reflexivity].
Qed.

(* ---- E: after the connection is closed nothing is written; flags are monotone; wg ---- *)
Lemma log_result_facts : forall me h s r, 
  noticed (log_result me h s r) = noticed h /\ wg (log_result me h s r) = wg h /\ tick_r (log_result me h s r) = tick_r h /\
  tick_k (log_result me h s r) = tick_k h /\ peer_closed (log_result me h s r) = peer_closed h /\
  wire (log_result me h s r) = wire h /\
  (r <> ROk -> filter is_ok (app_log (log_result me h s r)) = filter is_ok (app_log h)).
Proof.
  intros [|me] h s r; unfold log_result.
  - cbn. repeat split; auto. destruct r; cbn; auto. congruence.
  - destruct r, s, (rounds h); cbn; repeat split; auto.
Qed.

Lemma send_step_facts : forall me h p h' r, send_step me h p = (h', r) ->
  noticed h' = noticed h /\ wg h' = wg h /\ tick_r h' = tick_r h /\ tick_k h' = tick_k h /\ peer_closed h' = peer_closed h /\
  (closed h = true -> wire h' = wire h /\ filter is_ok (app_log h') = filter is_ok (app_log h)).
Proof.
  intros me h p h' r E.
  destruct p as [[tid|tid n]|s|s|s hdr|s ok]; cbn in E;
    try (destruct (memN _ (templates h))); try (destruct (send_lock h)); try (destruct (closed h) eqn:EC);
    inversion E; subst;
    try (match goal with |- context [log_result ?m ?hh ?ss ?rr] =>
           destruct (log_result_facts m hh ss rr) as (L1 & L2 & L3 & L4 & L5 & L6 & L7) end;
         rewrite L1, L2, L3, L4, L5, L6; cbn; repeat split; auto; try discriminate; apply L7; discriminate);
    cbn; repeat split; auto; try discriminate.
Qed.

Lemma close_step_flags : forall me wait h c h' r, close_step me wait h c = (h', r) ->
  (is_closed h = true -> is_closed h' = true) /\ (stop_closed h = true -> stop_closed h' = true).
Proof.
  intros me wait h c h' r H. destruct c, wait; cbn in H;
    try (destruct (is_closed h) eqn:EI); try (destruct (wg h) eqn:EW); inversion H; subst; cbn;
    split; intros; try discriminate; auto; try congruence.
Qed.

Definition bg (x : xstate) : nat :=
  (match refr x with RDone => 0 | _ => 1 end) + (match chk x with KDone => 0 | _ => 1 end).

Record step_facts (x x' : xstate) : Prop := MkFacts {
  sf_isclosed : is_closed (sh x) = true -> is_closed (sh x') = true;
  sf_closed : closed (sh x) = true -> closed (sh x') = true;
  sf_stop : stop_closed (sh x) = true -> stop_closed (sh x') = true;
  sf_frozen : closed (sh x) = true -> wire (sh x') = wire (sh x) /\ filter is_ok (app_log (sh x')) = filter is_ok (app_log (sh x));
  sf_noticed : noticed (sh x') = true -> noticed (sh x) = true \/ chk x' = KClose CSwap;
  sf_wg : wg (sh x) = bg x -> wg (sh x') = bg x';
  sf_nowait : (refr x <> RClose CWait -> refr x' <> RClose CWait) /\ (chk x <> KClose CWait -> chk x' <> KClose CWait);
  sf_kswap : chk x = KClose CSwap -> chk x' = KClose CSwap \/ is_closed (sh x') = true }.

Lemma close_swap_closed : forall me w h h' rr, close_step me w h CSwap = (h', rr) -> is_closed h' = true.
Proof. intros me w h h' rr E. cbn in E. destruct (is_closed h) eqn:EI, w; inversion E; subst; cbn; auto. Qed.

Lemma same_close_closed : forall h h', same_close h h' -> is_closed h' = is_closed h /\ closed h' = closed h /\ stop_closed h' = stop_closed h.
Proof. unfold same_close; tauto. Qed.

Ltac sf_one :=
  cbn [sh refr chk bg a_ph a_todo closers] in *; unfold wg_done in *; cbn in *; intros;
  try discriminate; try congruence; auto;
  try (split; intros; try discriminate; try congruence; auto; fail);
  try (match goal with G : closed ?h = true -> _ /\ _ |- _ => apply G; assumption end);
  try (left; congruence); try (right; reflexivity);
  try (match goal with H : KClose ?c = KClose CSwap |- _ => inversion H; subst; right; cbn; eapply close_swap_closed; eassumption end);
  try (match goal with k : kstate |- _ => destruct k; cbn in *; lia end);
  try (match goal with r : rstate |- _ => destruct r; cbn in *; lia end);
  try lia.
Ltac sf := constructor; sf_one.

Lemma close_false_nowait : forall me h c h' c', close_step me false h c = (h', CCont c') -> c' <> CWait.
Proof.
  intros me h c h' c' E. destruct c; cbn in E; try (destruct (is_closed h)); try (destruct (wg h));
    inversion E; subst; discriminate.
Qed.

Lemma xstep_facts : forall x a, step_facts x (xstep x a).
Proof.
  intros [h todo aph r k cl] a.
  destruct a as [t choice| | |]; [destruct t as [|[|[|t]]]|..]; cbn [xstep].
  - unfold step_app; cbn [a_ph a_todo sh refr chk closers]. destruct aph as [|p|c].
    + destruct todo as [|[s|] todo]; sf.
    + destruct (send_step 0 h p) as [h' rr] eqn:E. pose proof (send_step_close _ _ _ _ _ E) as J.
      apply same_close_closed in J. destruct J as (J1 & J2 & J3).
      destruct (send_step_facts _ _ _ _ _ E) as (G1 & G2 & G3 & G4 & G5 & G6).
      destruct rr; sf.
    + destruct (close_step 0 true h c) as [h' rr] eqn:E. close_case E. destruct (close_step_flags _ _ _ _ _ _ E) as (G1 & G2).
      destruct rr; sf.
  - unfold step_refr; cbn [a_ph a_todo sh refr chk closers]. destruct r as [| |td [p|]|c|].
    + destruct (stop_closed h), (tick_r h); try destruct choice; sf.
    + sf.
    + destruct (send_step 1 h p) as [h' rr] eqn:E. pose proof (send_step_close _ _ _ _ _ E) as J.
      apply same_close_closed in J. destruct J as (J1 & J2 & J3).
      destruct (send_step_facts _ _ _ _ _ E) as (G1 & G2 & G3 & G4 & G5 & G6).
      destruct rr as [p'|[|]|]; destruct td; sf.
    + destruct td as [|t td]; [destruct (rounds h)|]; sf.
    + destruct (close_step 1 false h c) as [h' rr] eqn:E. close_case E. destruct (close_step_flags _ _ _ _ _ _ E) as (G1 & G2).
      destruct rr as [c'| |]; [pose proof (close_false_nowait _ _ _ _ _ E)| |]; sf.
    + sf.
  - unfold step_chk; cbn [a_ph a_todo sh refr chk closers]. destruct k as [| |c|].
    + destruct (stop_closed h), (tick_k h); try destruct choice; sf.
    + destruct (peer_closed h); sf.
    + destruct (close_step 2 false h c) as [h' rr] eqn:E. close_case E. destruct (close_step_flags _ _ _ _ _ _ E) as (G1 & G2).
      destruct rr as [c'| |]; [pose proof (close_false_nowait _ _ _ _ _ E)| |]; sf.
    + sf.
  - unfold step_closer; cbn [a_ph a_todo sh refr chk closers]. destruct (cl (S (S (S t)))) as [n [c|]] eqn:ECl.
    + destruct (close_step (S (S (S t))) true h c) as [h' rr] eqn:E. close_case E. destruct (close_step_flags _ _ _ _ _ _ E) as (G1 & G2).
      destruct rr; destruct n; sf.
    + destruct n; sf.
  - sf.
  - sf.
  - sf.
Qed.

(* ========================= run-level theorems ========================= *)
Lemma xrun_app : forall a b x, xrun x (a ++ b) = xrun (xrun x a) b.
Proof. intros. unfold xrun. apply fold_left_app. Qed.

Lemma xrun_ind : forall (P : xstate -> Prop), (forall x a, P x -> P (xstep x a)) ->
  forall sched x, P x -> P (xrun x sched).
Proof. intros P H. induction sched as [|a r IH]; intros x Hx; cbn; [exact Hx | apply IH, H, Hx]. Qed.

Definition reach (udp : bool) (prog : list aop) (ncalls : nat -> nat) (sched : list action) : xstate :=
  xrun (xinit udp prog ncalls) sched.

Lemma init_A : forall udp prog n, invA (xinit udp prog n).
Proof. intros [] prog n; unfold invA, invA'; cbn; repeat split; auto. Qed.
Lemma init_B : forall udp prog n, invB prog (xinit udp prog n).
Proof. intros [] prog n; unfold invB, invB'; cbn; repeat split; auto. Qed.
Lemma init_C : forall udp prog n, invC (xinit udp prog n).
Proof. intros [] prog n; unfold invC, invC'; cbn; repeat split; auto. Qed.
Lemma init_D : forall udp prog n, invD (xinit udp prog n).
Proof.
  intros [] prog n; unfold invD, invD'; cbn; repeat split; auto; try discriminate;
    intros [|[|[|t]]] H; cbn in H; congruence.
Qed.

Lemma reach_A : forall udp prog n sched, invA (reach udp prog n sched).
Proof. intros. unfold reach. apply xrun_ind; [apply invA_step | apply init_A]. Qed.
Lemma reach_B : forall udp prog n sched, invB prog (reach udp prog n sched).
Proof. intros. unfold reach. apply xrun_ind; [apply invB_step | apply init_B]. Qed.
Lemma reach_C : forall udp prog n sched, invC (reach udp prog n sched).
Proof. intros. unfold reach. apply xrun_ind; [apply invC_step | apply init_C]. Qed.
Lemma reach_D : forall udp prog n sched, invD (reach udp prog n sched).
Proof. intros. unfold reach. apply xrun_ind; [apply invD_step | apply init_D]. Qed.

(* (1) header order = wire order: every message on the wire, in wire order, carries the running
   count of data records (mod 2^32) - for every schedule *)
Theorem exp_wire_wf : forall udp prog n sched, wire_seq_ok (wire (sh (reach udp prog n sched))).
Proof.
  intros. destruct (reach_A udp prog n sched) as (_ & _ & H & _). exact H.
Qed.

(* (2) the application's messages are on the wire in the application's order: they are exactly
   its successful sends, and its log follows its program *)
Theorem exp_app_order : forall udp prog n sched,
  let x := reach udp prog n sched in
  map m_set (filter (from 0) (wire (sh x))) = map fst (filter is_ok (app_log (sh x))) /\
  rev (map fst (app_log (sh x))) ++ pending (a_ph x) ++ sends (a_todo x) = sends prog.
Proof.
  intros. destruct (reach_B udp prog n sched) as (H1 & _ & _ & H4). split; assumption.
Qed.

(* (3) once a send has failed at the connection no later send succeeds *)
Theorem exp_mono : forall udp prog n sched, mono (app_log (sh (reach udp prog n sched))).
Proof.
  intros. destruct (reach_B udp prog n sched) as (_ & H & _). exact H.
Qed.

(* (4) after the first close has completed (conn.Close executed) no byte is written, whatever
   runs afterwards, and no send succeeds *)
Theorem exp_frozen : forall s2 x, closed (sh x) = true ->
  closed (sh (xrun x s2)) = true /\ wire (sh (xrun x s2)) = wire (sh x) /\
  filter is_ok (app_log (sh (xrun x s2))) = filter is_ok (app_log (sh x)).
Proof.
  induction s2 as [|a r IH]; intros x C; [cbn; auto|]. change (xrun x (a :: r)) with (xrun (xstep x a) r).
  destruct (xstep_facts x a) as [_ F2 _ F4 _ _ _ _]. destruct (F4 C) as (W & L).
  destruct (IH (xstep x a) (F2 C)) as (I1 & I2 & I3). repeat split; congruence.
Qed.

(* (5) refresh rounds: the refresher's messages are exactly the rounds' templates; every completed
   round sent exactly its snapshot, in order; snapshots only grow and are registered templates;
   and a snapshot is the set of templates registered at that moment *)
Theorem exp_rounds : forall udp prog n sched,
  let h := sh (reach udp prog n sched) in
  map m_set (filter (from 1) (wire h)) = map STemplate (flat_map r_sent (rounds h)) /\
  Forall (fun rd => r_complete rd = true -> rev (r_sent rd) = r_snap rd) (rounds h) /\
  chain (templates h) (rounds h).
Proof.
  intros. destruct (reach_C udp prog n sched) as (H1 & H2 & _ & H4). repeat split; assumption.
Qed.
Theorem exp_snapshot : forall x c, refr x = RSnap ->
  rounds (sh (xstep x (AStep 1 c))) = MkRound (templates (sh x)) [] false :: rounds (sh x).
Proof. intros [h todo aph r k cl] c E. cbn in E. subst r. reflexivity. Qed.

(* (6) closing is idempotent from any thread: however many threads call it however often, the
   stop channel is closed at most once (never a double close), conn.Close runs at most once *)
Theorem exp_close_once : forall udp prog n sched,
  let h := sh (reach udp prog n sched) in
  panicked h = false /\ n_stop h <= 1 /\ n_conn h <= 1 /\ (closed h = true -> stop_closed h = true /\ is_closed h = true).
Proof.
  intros. destruct (reach_D udp prog n sched) as (D1 & D2 & D3 & _). fold h in D1, D2, D3.
  destruct (is_closed h) eqn:E.
  - destruct (D3 eq_refl) as (w & _ & M).
    destruct (cnorm (cph_of (reach udp prog n sched) w)) as [|[|[|]]]; destruct M as (N1 & N2 & St & Cl);
      repeat split; auto; try lia; try congruence.
  - destruct (D2 eq_refl) as (_ & N1 & N2 & Cl & St). repeat split; auto; try lia; congruence.
Qed.

(* (7) over TCP: once the checker has seen the peer's close and has taken its step of
   closeConnToCollector, the exporter is closing; unless another thread is at that moment in the
   middle of the same close, the connection is closed - and then (4): every later send fails *)
Theorem exp_peer_noticed : forall udp prog n sched,
  let x := reach udp prog n sched in
  noticed (sh x) = true -> chk x <> KClose CSwap ->
  is_closed (sh x) = true /\
  (closed (sh x) = true \/ exists w, winner (sh x) = Some w /\ cnorm (cph_of x w) <> 0).
Proof.
  intros udp prog n sched x N K.
  assert (noticed (sh x) = true -> chk x = KClose CSwap \/ is_closed (sh x) = true) as HK.
  { unfold x, reach. apply xrun_ind.
    - intros y a IH Ny. destruct (xstep_facts y a) as [F1 _ _ _ F5 _ _ F8].
      destruct (F5 Ny) as [Ny'|]; [|left; assumption].
      destruct (IH Ny') as [Kc|Ic]; [apply F8; assumption | right; apply F1; assumption].
    - destruct udp; cbn; discriminate. }
  destruct (HK N) as [|Ic]; [contradiction|]. split; [exact Ic|].
  destruct (reach_D udp prog n sched) as (_ & _ & D3 & _). fold x in D3.
  destruct (D3 Ic) as (w & Hw & M).
  destruct (cnorm (cph_of x w)) as [|[|[|]]] eqn:E; destruct M as (_ & _ & _ & Cl); auto;
    right; exists w; rewrite E; split; auto.
Qed.

(* wg counts the live background goroutines; they never wait on wg *)
Theorem exp_wg : forall udp prog n sched,
  let x := reach udp prog n sched in
  wg (sh x) = bg x /\ refr x <> RClose CWait /\ chk x <> KClose CWait.
Proof.
  intros. unfold x, reach. apply xrun_ind.
  - intros y a (W & R & K). destruct (xstep_facts y a) as [_ _ _ _ _ F6 (F7a & F7b) _]. auto.
  - destruct udp; cbn; repeat split; discriminate.
Qed.
