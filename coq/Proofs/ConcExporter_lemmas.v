(* C14: invariants of the exporter interleaving model (Model/ConcExporter.v), over every
   schedule. No axioms. *)
From Coq Require Import List Bool Arith NArith Lia.
From Verif.Model Require Import ConcExporter.
Import ListNotations.

(* ---- frame facts about the sub-machines ---- *)
Lemma close_step_frame : forall me wait h c h' r, close_step me wait h c = (h', r) ->
  wire h' = wire h /\ seq h' = seq h /\ send_lock h' = send_lock h /\ templates h' = templates h /\
  app_log h' = app_log h /\ rounds h' = rounds h /\ (closed h = true -> closed h' = true) /\
  wg h' = wg h /\ tick_r h' = tick_r h /\ tick_k h' = tick_k h /\ peer_closed h' = peer_closed h /\ noticed h' = noticed h.
Proof.
  intros me wait h c h' r H. destruct c, wait; cbn in H.
  all: try (destruct (is_closed h); inversion H; subst; cbn; repeat split; auto; fail).
  all: try (inversion H; subst; cbn; repeat split; auto; fail).
  all: destruct (wg h) eqn:E; inversion H; subst; cbn; repeat split; auto.
Qed.

Definition asp (a : aphase) : option sphase := match a with ASending p => Some p | _ => None end.
Definition rsp (r : rstate) : option sphase := match r with RSend _ (Some p) => Some p | _ => None end.
Definition holds (p : option sphase) : bool :=
  match p with Some (PInc _) | Some (PWrite _ _) | Some (PUnlock _ _) => true | _ => false end.
Definition is_write (p : option sphase) : bool := match p with Some (PWrite _ _) => true | _ => false end.
Definition wr_ok (h : shared) (p : option sphase) : Prop :=
  match p with Some (PWrite s hdr) => hdr = seq h /\ seq h = add32 (wsum (wire h)) (recs s) | _ => True end.

Definition after (p : sphase) (r : sres) : option sphase :=
  match r with SCont p' => Some p' | SDone _ => None | SBlocked => Some p end.

Ltac close_case H :=
  match type of H with close_step ?me ?w ?h ?c = _ =>
    let F := fresh "F" in pose proof (close_step_frame _ _ _ _ _ _ H) as F;
    destruct F as (F1 & F2 & F3 & F4 & F5 & F6 & F7 & F8 & F9 & F10 & F11 & F12) end.

Ltac crunch :=
  cbn in *; try discriminate; try congruence;
  repeat match goal with
         | |- _ /\ _ => split
         | |- _ -> _ => intro
         | H : ?a = ?a -> _ |- _ => specialize (H eq_refl)
         | H : ?a = ?b -> _, H' : ?a = ?b |- _ => specialize (H H')
         | H : _ /\ _ |- _ => destruct H
         | H : true = false -> _ |- _ => clear H
         end; cbn in *; subst; try discriminate; try congruence; auto.

(* ---- A: the send mutex, the sequence counter and the wire ---- *)
Definition invA' (h : shared) (pa pr : option sphase) : Prop :=
  send_lock h = (if holds pa then Some 0 else if holds pr then Some 1 else None) /\
  holds pa && holds pr = false /\
  wire_seq_ok (wire h) /\
  (closed h = false ->
     wr_ok h pa /\ wr_ok h pr /\ (is_write pa || is_write pr = false -> seq h = wsum (wire h))).
Definition invA (x : xstate) : Prop := invA' (sh x) (asp (a_ph x)) (rsp (refr x)).

Lemma frameA : forall h h' pa pr, invA' h pa pr ->
  wire h' = wire h -> seq h' = seq h -> send_lock h' = send_lock h -> (closed h = true -> closed h' = true) ->
  invA' h' pa pr.
Proof.
  intros h h' pa pr (A1 & A2 & A3 & A4) W S L C. unfold invA', wr_ok in *.
  rewrite W, S, L. split; [exact A1|]. split; [exact A2|]. split; [exact A3|].
  intros Hc. apply A4. destruct (closed h) eqn:E; auto. rewrite (C eq_refl) in Hc; discriminate.
Qed.

Lemma startA_app : forall h pr s, invA' h None pr -> invA' h (Some (PCheck s)) pr.
Proof. intros h pr s (A1 & A2 & A3 & A4). unfold invA' in *. destruct pr as [[]|]; crunch. Qed.
Lemma startA_ref : forall h pa s, invA' h pa None -> invA' h pa (Some (PCheck s)).
Proof. intros h pa s (A1 & A2 & A3 & A4). unfold invA' in *. destruct pa as [[]|]; crunch. Qed.

Lemma sendA_app : forall h p pr h' r, invA' h (Some p) pr -> send_step 0 h p = (h', r) -> invA' h' (after p r) pr.
Proof.
  intros h p pr h' r (A1 & A2 & A3 & A4) E. unfold invA' in *.
  destruct p as [[tid|tid n]|s|s|s hdr|s ok]; cbn in E.
  - destruct (memN tid (templates h)); inversion E; subst; destruct pr as [[]|]; crunch.
  - destruct (memN tid (templates h)); inversion E; subst; destruct pr as [[]|]; crunch.
  - destruct (send_lock h) eqn:EL; inversion E; subst; destruct pr as [[]|]; crunch.
  - inversion E; subst; destruct pr as [[]|]; crunch.
  - destruct (closed h) eqn:EC; inversion E; subst; destruct pr as [[]|]; destruct s; crunch.
  - inversion E; subst; destruct pr as [[]|]; crunch.
Qed.

Lemma sendA_ref : forall h p pa h' r, invA' h pa (Some p) -> send_step 1 h p = (h', r) -> invA' h' pa (after p r).
Proof.
  intros h p pa h' r (A1 & A2 & A3 & A4) E. unfold invA' in *.
  destruct p as [[tid|tid n]|s|s|s hdr|s ok]; cbn in E.
  - destruct (memN tid (templates h)); inversion E; subst; destruct pa as [[]|]; crunch.
  - destruct (memN tid (templates h)); inversion E; subst; destruct pa as [[]|]; crunch.
  - destruct (send_lock h) eqn:EL; inversion E; subst; destruct pa as [[]|]; crunch.
  - inversion E; subst; destruct pa as [[]|]; crunch.
  - destruct s; destruct (rounds h) eqn:ER; destruct (closed h) eqn:EC; cbn in E; inversion E; subst; destruct pa as [[]|]; crunch.
  - inversion E; subst; destruct pa as [[]|]; crunch.
Qed.

Ltac fr := eapply frameA; [eassumption | cbn; congruence | cbn; congruence | cbn; congruence | cbn; auto].

Lemma invA_step : forall x a, invA x -> invA (xstep x a).
Proof.
  intros [h todo aph r k cl] a I. unfold invA in *; cbn in I.
  destruct a as [t choice| | |]; [destruct t as [|[|[|t]]]|..]; cbn [xstep].
  - unfold step_app; cbn [a_ph a_todo sh refr chk closers]. destruct aph as [|p|c]; cbn [asp] in *.
    + destruct todo as [|[s|] todo]; cbn [asp]; auto.
    + destruct (send_step 0 h p) as [h' rr] eqn:E. pose proof (sendA_app _ _ _ _ _ I E) as J. destruct rr; cbn in *; auto.
    + destruct (close_step 0 true h c) as [h' rr] eqn:E. close_case E. destruct rr; cbn; auto; fr.
  - unfold step_refr; cbn [a_ph a_todo sh refr chk closers]. destruct r as [| |td [p|]|c|]; cbn [rsp] in *.
    + destruct (stop_closed h), (tick_r h); try destruct choice; cbn; auto; fr.
    + cbn. fr.
    + destruct (send_step 1 h p) as [h' rr] eqn:E. pose proof (sendA_ref _ _ _ _ _ I E) as J.
      destruct rr as [p'|[|]|]; destruct td; cbn in *; auto.
    + destruct td as [|t td]; cbn.
      * destruct (rounds h); fr.
      * cbn [rsp]. try exact I; apply startA_ref; auto.
    + destruct (close_step 1 false h c) as [h' rr] eqn:E. close_case E. destruct rr; cbn; auto; fr.
    + cbn; auto.
  - unfold step_chk; cbn [a_ph a_todo sh refr chk closers]. destruct k as [| |c|].
    + destruct (stop_closed h), (tick_k h); try destruct choice; cbn; auto; fr.
    + destruct (peer_closed h); cbn; auto; fr.
    + destruct (close_step 2 false h c) as [h' rr] eqn:E. close_case E. destruct rr; cbn; auto; fr.
    + cbn; auto.
  - unfold step_closer; cbn [a_ph a_todo sh refr chk closers]. destruct (cl (S (S (S t)))) as [n [c|]].
    + destruct (close_step (S (S (S t))) true h c) as [h' rr] eqn:E. close_case E. destruct rr; destruct n; cbn; auto; fr.
    + destruct n; cbn; auto.
  - cbn. fr.
  - cbn. fr.
  - cbn. fr.
Qed.

(* ---- B: the application's log, its order, and monotonicity of the results ---- *)
Definition invB' (prog : list aop) (h : shared) (aph : aphase) (todo : list aop) : Prop :=
  map m_set (filter (from 0) (wire h)) = map fst (filter is_ok (app_log h)) /\
  mono (app_log h) /\
  (closed h = false -> forallb (fun e => negb (is_errwrite e)) (app_log h) = true) /\
  rev (map fst (app_log h)) ++ pending aph ++ sends todo = sends prog.
Definition invB (prog : list aop) (x : xstate) : Prop := invB' prog (sh x) (a_ph x) (a_todo x).

Lemma frameB : forall prog h h' aph todo, invB' prog h aph todo ->
  filter (from 0) (wire h') = filter (from 0) (wire h) -> app_log h' = app_log h -> (closed h = true -> closed h' = true) -> invB' prog h' aph todo.
Proof.
  intros prog h h' aph todo (B1 & B2 & B3 & B4) W L C. unfold invB' in *. rewrite W, L.
  split; [exact B1|]. split; [exact B2|]. split; [|exact B4].
  intros Hc. apply B3. destruct (closed h) eqn:E; auto. rewrite (C eq_refl) in Hc; discriminate.
Qed.

Lemma frameB_w : forall prog h h' aph todo, invB' prog h aph todo ->
  wire h' = wire h -> app_log h' = app_log h -> (closed h = true -> closed h' = true) -> invB' prog h' aph todo.
Proof. intros. eapply frameB; eauto. congruence. Qed.

Ltac finB := repeat split; auto; try discriminate; try congruence; try (intros; discriminate); try (rewrite <- app_assoc; cbn; assumption).

Lemma sendB_app : forall prog h p todo h' r, invB' prog h (ASending p) todo -> send_step 0 h p = (h', r) ->
  invB' prog h' (match r with SCont p' => ASending p' | SDone _ => AIdle | SBlocked => ASending p end) todo.
Proof.
  intros prog h p todo h' r (B1 & B2 & B3 & B4) E. unfold invB' in *.
  destruct p as [[tid|tid n]|s|s|s hdr|s ok]; cbn in E.
  - destruct (memN tid (templates h)); inversion E; subst; crunch.
  - destruct (memN tid (templates h)); inversion E; subst; cbn in *; [crunch|]. finB.
  - destruct (send_lock h); inversion E; subst; crunch.
  - inversion E; subst; crunch.
  - destruct (closed h) eqn:EC; inversion E; subst; cbn in *.
    + finB.
    + specialize (B3 eq_refl). finB.
  - inversion E; subst; crunch.
Qed.

Lemma sendB_ref : forall prog h p aph todo h' r, invB' prog h aph todo -> send_step 1 h p = (h', r) -> invB' prog h' aph todo.
Proof.
  intros prog h p aph todo h' r I E. eapply frameB; [exact I|..];
  destruct p as [[tid|tid n]|s|s|s hdr|s ok]; cbn in E;
    try (destruct (memN _ (templates h))); try (destruct (send_lock h));
    try (destruct s; destruct (rounds h); destruct (closed h) eqn:EC; cbn in E);
    inversion E; subst; cbn; auto; congruence.
Qed.

Ltac frb := eapply frameB_w; [eassumption | cbn; congruence | cbn; congruence | cbn; auto].

Lemma invB_step : forall prog x a, invB prog x -> invB prog (xstep x a).
Proof.
  intros prog [h todo aph r k cl] a I. unfold invB in *; cbn in I.
  destruct a as [t choice| | |]; [destruct t as [|[|[|t]]]|..]; cbn [xstep].
  - unfold step_app; cbn [a_ph a_todo sh refr chk closers]. destruct aph as [|p|c].
    + destruct todo as [|[s|] todo]; cbn; auto.
    + destruct (send_step 0 h p) as [h' rr] eqn:E. pose proof (sendB_app _ _ _ _ _ _ I E) as J. destruct rr; cbn in *; auto.
    + destruct (close_step 0 true h c) as [h' rr] eqn:E. close_case E. destruct rr; cbn; auto;
        (apply frameB_w with (h := h); [|cbn; congruence|cbn; congruence|cbn; auto]); destruct I as (B1 & B2 & B3 & B4); unfold invB'; cbn in *; auto.
  - unfold step_refr; cbn [a_ph a_todo sh refr chk closers]. destruct r as [| |td [p|]|c|].
    + destruct (stop_closed h), (tick_r h); try destruct choice; cbn; auto; frb.
    + cbn. frb.
    + destruct (send_step 1 h p) as [h' rr] eqn:E. pose proof (sendB_ref _ _ _ _ _ _ _ I E) as J.
      destruct rr as [p'|[|]|]; destruct td; cbn in *; auto.
    + destruct td as [|t td]; cbn; auto. destruct (rounds h); frb.
    + destruct (close_step 1 false h c) as [h' rr] eqn:E. close_case E. destruct rr; cbn; auto; frb.
    + cbn; auto.
  - unfold step_chk; cbn [a_ph a_todo sh refr chk closers]. destruct k as [| |c|].
    + destruct (stop_closed h), (tick_k h); try destruct choice; cbn; auto; frb.
    + destruct (peer_closed h); cbn; auto; frb.
    + destruct (close_step 2 false h c) as [h' rr] eqn:E. close_case E. destruct rr; cbn; auto; frb.
    + cbn; auto.
  - unfold step_closer; cbn [a_ph a_todo sh refr chk closers]. destruct (cl (S (S (S t)))) as [n [c|]].
    + destruct (close_step (S (S (S t))) true h c) as [h' rr] eqn:E. close_case E. destruct rr; destruct n; cbn; auto; frb.
    + destruct n; cbn; auto.
  - cbn. frb.
  - cbn. frb.
  - cbn. frb.
Qed.
