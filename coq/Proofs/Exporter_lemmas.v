(* Lemmas about the exporting-process model (Model/Exporter.v) in its current (repaired) form. *)
From Coq Require Import List Bool Arith NArith ZArith Lia String.
From Coq Require Import ZifyN ZifyNat ZifyBool.
From Coq.Strings Require Import Byte.
From Verif.Base Require Import Bytes Outcome.
From Verif.Model Require Import IE Codec Record SetB Msg Exporter.
From Verif.Proofs Require Import Bytes_lemmas Codec_lemmas SetB_lemmas.
Import ListNotations.
Local Open Scope N_scope.
Local Notation length := List.length.

(* ---- CreateIPFIXMsg succeeded: what the bytes are ---- *)
Lemma copy_records_ok_buffers rs : forall room ws l,
  copy_records rs room = Ok (ws, l) -> Forall (fun r => exists b, rec_buffer r = Ok b) rs.
Proof.
  induction rs as [|r rest IH]; intros room ws l H; [constructor|].
  cbn [copy_records] in H. destruct (room <? rec_len r); [discriminate|].
  destruct (rec_buffer r) as [b| | |] eqn:Eb; cbn [obind] in H; try discriminate.
  destruct (copy_records rest (room - rec_len r)) as [[ws' l']| | |] eqn:Ec; cbn [obind] in H; try discriminate.
  constructor; [eauto|]. eapply IH; eassumption.
Qed.

Lemma create_msg_ok_buffers s o q t b : create_msg s o q t = Ok b -> all_buffers_ok s.
Proof.
  unfold create_msg. destruct (max_msg <? msg_hdr_len + s_len s); [discriminate|].
  rewrite msg_header_spec. cbn [obind].
  destruct (msg_hdr_len + s_len s <? msg_hdr_len + set_header_len); [discriminate|].
  destruct (copy_records (s_recs s) _) as [[ws l]| | |] eqn:Ec; cbn [obind]; try discriminate.
  intros _. eapply copy_records_ok_buffers; eassumption.
Qed.

Definition msg_hdr (obs seq t len : N) : list byte :=
  be 2 10 ++ be 2 len ++ be 4 t ++ be 4 seq ++ be 4 obs.

Lemma blen_concat_bufs' rs :
  Forall (fun r => blen (buf_of r) = rec_len r) rs ->
  blen (List.concat (map buf_of rs)) = sum_rec_len rs.
Proof.
  unfold blen. induction rs as [|r t IH]; intros F; [reflexivity|].
  inversion F as [|? ? B F']; subst. cbn [map List.concat]. rewrite app_length.
  unfold sum_rec_len in *. cbn [fold_right]. specialize (IH F'). lia.
Qed.

Lemma create_msg_ok_shape_m s o q t b :
  InvM s -> create_msg s o q t = Ok b ->
  b = msg_hdr o q t (16 + s_len s) ++ s_hdr s ++ List.concat (map buf_of (s_recs s)) /\
  blen b = 16 + s_len s /\ 16 + s_len s <= 65535.
Proof.
  intros HI H. pose proof (create_msg_ok_buffers _ _ _ _ _ H) as AB.
  rewrite (create_msg_spec_m s o q t HI AB) in H.
  change msg_hdr_len with 16 in H. change max_msg with 65535 in H.
  destruct (N.ltb_spec 65535 (16 + s_len s)); [discriminate|].
  assert (b = msg_hdr o q t (16 + s_len s) ++ s_hdr s ++ List.concat (map buf_of (s_recs s))) as -> by (unfold msg_hdr; congruence).
  split; [reflexivity|]. split; [|assumption].
  pose proof HI as (H4 & HL).
  assert (BL : blen (List.concat (map buf_of (s_recs s))) = sum_rec_len (s_recs s)).
  { apply blen_concat_bufs'. apply Forall_forall. intros r Hr.
    pose proof (rec_buffer_len r) as S.
    unfold all_buffers_ok in AB. rewrite Forall_forall in AB. destruct (AB r Hr) as [bb Eb].
    unfold buf_of. rewrite Eb in *. exact S. }
  assert (Hs : sum_rec_len (s_recs s) = sum_rec_len (s_rrecs s)) by (rewrite s_recs_rev; apply sum_rec_len_rev).
  unfold blen, msg_hdr in *. rewrite !app_length, !length_be, H4. lia.
Qed.
Lemma create_msg_ok_shape s o q t b :
  Inv s -> create_msg s o q t = Ok b ->
  b = msg_hdr o q t (16 + s_len s) ++ s_hdr s ++ List.concat (map buf_of (s_recs s)) /\
  blen b = 16 + s_len s /\ 16 + s_len s <= 65535.
Proof. intros H. apply create_msg_ok_shape_m. now apply Inv_InvM. Qed.

(* UpdateLenInHeader changes only the header bytes *)
Lemma updlen_keeps s :
  let s' := fst (step s OUpdLen) in
  s_len s' = s_len s /\ s_rrecs s' = s_rrecs s /\ s_type s' = s_type s.
Proof. cbn [step]. destruct (put_at _ _ _); cbn; auto. Qed.

(* ---- one successful SendSet (current code) ---- *)
Definition data_count (s : setb) : N :=
  match s_type s with SData => N.of_nat (length (s_rrecs s)) | _ => 0 end.
Definition seq_next (q : N) (s : setb) : N := u32 (q + data_count s).

Lemma u32_add_u32 a b : u32 (a + u32 b) = u32 (a + b).
Proof. unfold u32. now rewrite N.add_mod_idemp_r. Qed.
Lemma u32_idem a : u32 (u32 a) = u32 a.
Proof. unfold u32. now rewrite N.mod_mod. Qed.

Definition st_wf (st : exp) : Prop := x_seq st = u32 (x_seq st).

Record ok_send (st : exp) (s : setb) (t : N) (x : sent) (n : N) (bytes : list byte) : Prop := mkOkSend {
  os_wire : r_wire x = Some bytes;
  os_n : n = blen bytes;
  os_bytes : exists rest, bytes = msg_hdr (x_obs st) (seq_next (x_seq st) s) t (blen bytes) ++ rest;
  os_len : blen bytes = 16 + s_len s;
  os_max : blen bytes <= 65535;
  os_seq : x_seq (r_st x) = seq_next (x_seq st) s;
  os_obs : x_obs (r_st x) = x_obs st;
  os_udp : x_udp (r_st x) = x_udp st
}.

Lemma register_all_cases m rs : snd (register_all m rs) = Ok tt \/ snd (register_all m rs) = Panic.
Proof.
  revert m. induction rs as [|r rest IH]; intros m; cbn [register_all]; [now left|].
  destruct r; cbn [rec_minlen]; [apply IH|now right].
Qed.

Lemma seq_next_cases st s :
  st_wf st ->
  match s_type s with
  | SData => u32 (x_seq st + u32 (N.of_nat (length (s_rrecs s))))
  | _ => x_seq st
  end = seq_next (x_seq st) s.
Proof.
  intros W. unfold seq_next, data_count. destruct (s_type s).
  - rewrite N.add_0_r. exact W.
  - apply u32_add_u32.
  - rewrite N.add_0_r. exact W.
Qed.

Theorem send_set_ok_m st s t n :
  InvM s -> st_wf st ->
  r_res (send_set cur st s t) = Ok n ->
  exists bytes, ok_send st s t (send_set cur st s t) n bytes.
Proof.
  intros HI W. pose proof (seq_next_cases st s W) as SN.
  pose proof (InvM_step s OUpdLen HI) as HI'. destruct (updlen_keeps s) as (KL & KR & KT).
  unfold send_set in *. destruct (s_type s) eqn:Ety.
  - (* template set *)
    cbn [cur fx_register with_seq with_tpls x_obs x_seq x_tpls x_udp] in *.
    destruct (create_msg (fst (step s OUpdLen)) (x_obs st) (x_seq st) t) as [bytes| | |] eqn:Ec;
      cbn [r_res]; try discriminate.
    destruct (create_msg_ok_shape_m _ _ _ _ _ HI' Ec) as (Eb & Bl & Mx). rewrite KL in *.
    destruct (write_ok (x_udp st) bytes); cbn [r_res]; try discriminate.
    destruct (register_all (x_tpls st) (s_recs s)) as [m o] eqn:Er.
    destruct o; cbn [r_res]; try discriminate. intros [= <-].
    exists bytes. split; cbn [r_wire r_st x_seq x_obs x_udp with_tpls]; auto; try lia.
    eexists. rewrite Bl, <- SN. exact Eb.
  - (* data set *)
    cbn [cur fx_register with_seq with_tpls x_obs x_seq x_tpls x_udp] in *.
    destruct (check_set _ _ _); cbn [r_res]; try discriminate.
    destruct (create_msg _ _ _ _) as [bytes| | |] eqn:Ec; cbn [r_res]; try discriminate.
    destruct (create_msg_ok_shape_m _ _ _ _ _ HI' Ec) as (Eb & Bl & Mx). rewrite KL in *.
    destruct (write_ok (x_udp st) bytes); cbn [r_res]; try discriminate. intros [= <-].
    exists bytes. split; cbn [r_wire r_st x_seq x_obs x_udp with_seq]; auto; try lia.
    eexists. rewrite Bl, <- SN. exact Eb.
  - cbn [r_res]. discriminate.
Qed.

Theorem send_set_ok st s t n :
  Inv s -> st_wf st ->
  r_res (send_set cur st s t) = Ok n ->
  exists bytes, ok_send st s t (send_set cur st s t) n bytes.
Proof. intros H. apply send_set_ok_m. now apply Inv_InvM. Qed.

(* (c) a call that returns an error wrote nothing; it may have advanced the counter but never
   touches the templates *)
Theorem send_set_err_nothing st s t k :
  r_res (send_set cur st s t) = Err k ->
  r_wire (send_set cur st s t) = None /\ x_tpls (r_st (send_set cur st s t)) = x_tpls st.
Proof.
  unfold send_set. destruct (s_type s) eqn:Ety.
  - cbn [cur fx_register with_seq with_tpls x_obs x_seq x_tpls x_udp].
    destruct (create_msg _ _ _ _) as [bytes| | |]; cbn [r_res r_wire r_st]; try discriminate; auto.
    destruct (write_ok _ _); cbn [r_res r_wire r_st]; auto.
    pose proof (register_all_cases (x_tpls st) (s_recs s)) as C.
    destruct (register_all (x_tpls st) (s_recs s)) as [m o]. cbn [snd] in C.
    destruct o; cbn [r_res]; try discriminate. destruct C; discriminate.
  - cbn [cur fx_register with_seq with_tpls x_obs x_seq x_tpls x_udp].
    destruct (check_set _ _ _); cbn [r_res r_wire r_st]; try discriminate; auto.
    destruct (create_msg _ _ _ _) as [bytes| | |]; cbn [r_res r_wire r_st]; try discriminate; auto.
    destruct (write_ok _ _); cbn [r_res r_wire r_st]; auto. discriminate.
  - cbn. auto.
Qed.
