(* The exact array heap REFINES the abstract queue of Model/Pq.v: every run of the expiry model
   on the array heap (Model/HeapExpiry.v) is a run of the abstract model (Model/Expiry.v) whose
   pick sequences are the heap's own pops, all of them accepted. So every C06 theorem, proved
   for every accepted pick sequence, holds for what the heap really does. *)
From Coq Require Import List Bool Arith NArith ZArith Lia Permutation String.
From Coq Require Import ZifyNat ZifyBool.
From Verif.Base Require Import Outcome.
From Verif.Model Require Import IE KMap Pq Corr Expiry ExpirySpec Heap HeapExpiry.
From Verif.Proofs Require Import KMap_lemmas Expiry_lemmas Progress_lemmas Heap_lemmas.
Import ListNotations.
Local Open Scope Z_scope.

(* ---- association lists up to permutation ---- *)
Lemma km_remove_perm {V} (p : N) (d : V) q : km_find p q = Some d -> Permutation q ((p, d) :: km_remove p q).
Proof.
  induction q as [|[k0 v0] q IH]; cbn; [discriminate|].
  destruct (N.eqb_spec k0 p) as [->|NE].
  - intros [= ->]. reflexivity.
  - intros F. eapply perm_trans; [apply perm_skip, IH, F|]. apply perm_swap.
Qed.

Lemma km_set_perm {V} (k : N) (d d' : V) q : km_find k q = Some d ->
  Permutation ((k, d) :: km_set k d' q) ((k, d') :: q).
Proof.
  induction q as [|[k0 v0] q IH]; cbn; [discriminate|].
  destruct (N.eqb_spec k0 k) as [->|NE].
  - intros [= ->]. apply perm_swap.
  - intros F. eapply perm_trans; [apply perm_swap|]. eapply perm_trans; [apply perm_skip, IH, F|].
    apply perm_swap.
Qed.

Lemma perm_keys_NoDup {V} (q q' : kmap V) : Permutation q q' -> NoDup (km_keys q) -> NoDup (km_keys q').
Proof. intros Pm. apply Permutation_NoDup. unfold km_keys. apply Permutation_map. assumption. Qed.

(* ---- the refinement relation ---- *)
Definition R (s : st) (c : cst) : Prop :=
  flows s = cflows c /\ Permutation (queue s) (map h_data (cheap c)) /\ heap_inv (cheap c).

Lemma R_init : R init cinit.
Proof.
  repeat split; try reflexivity.
  - intros p c L. cbn in L. lia.
  - intros i x H. destruct i; discriminate.
Qed.

Lemma deadline_data y : deadline (h_data y) = h_min y.
Proof. reflexivity. Qed.

(* Peek: the root carries the least deadline of the queue *)
Lemma min_deadline_root q h : Permutation q (map h_data h) -> heap_inv h ->
  min_deadline q = match h with [] => None | top :: _ => Some (h_min top) end.
Proof.
  intros Pm [O _]. destruct h as [|top h'].
  - apply Permutation_sym, Permutation_nil in Pm. subst q. reflexivity.
  - destruct (min_deadline q) as [m|] eqn:M.
    + f_equal. pose proof (min_deadline_le _ _ M) as Le. destruct (min_deadline_attained _ _ M) as (it & Iit & D).
      assert (A : m <= h_min top).
      { apply (Le (h_data top)). eapply Permutation_in; [apply Permutation_sym; exact Pm|]. left. reflexivity. }
      assert (B : h_min top <= m).
      { eapply Permutation_in in Iit; [|exact Pm]. apply in_map_iff in Iit. destruct Iit as (y & <- & Iy).
        rewrite deadline_data in D. subst m.
        destruct (In_hv _ _ Iy) as (c & Lc & <-). apply (ordered_root_min _ _ O c Lc). }
      lia.
    + apply min_deadline_None in M. subst q. apply Permutation_nil in Pm. discriminate.
Qed.

(* the item of a key in the slice, from its entry in the abstract queue *)
Lemma h_find_of_queue q h k d : NoDup (km_keys q) -> Permutation q (map h_data h) ->
  km_find k q = Some d -> exists p x, h_find k h = Some (p, x) /\ h_data x = (k, d).
Proof.
  intros ND Pm F.
  assert (ND' : NoDup (km_keys (map h_data h))) by (eapply perm_keys_NoDup; eassumption).
  assert (I : In (k, d) (map h_data h)) by (eapply Permutation_in; [exact Pm|apply km_find_In; assumption]).
  destruct (h_find k h) as [[p x]|] eqn:Hf.
  - exists p, x. split; [reflexivity|]. destruct (h_find_some _ _ _ _ Hf) as [Hp Hk].
    assert (Ix : In (h_data x) (map h_data h)) by (apply in_map; eapply nth_error_In; eassumption).
    assert (Ex : h_data x = (k, (h_act x, h_inact x))) by (unfold h_data; rewrite Hk; reflexivity).
    rewrite Ex in *. apply (km_In_find _ _ _ ND') in I. apply (km_In_find _ _ _ ND') in Ix. rewrite I in Ix. injection Ix as ->. reflexivity.
  - exfalso. apply in_map_iff in I. destruct I as (y & E & Iy).
    apply (h_find_none _ _ Hf y Iy). unfold h_data in E. congruence.
Qed.

(* ---- addOrUpdateRecordInMap ---- *)
Lemma add_or_update_flow_part P now k r s :
  add_or_update P now k r s =
  do fe <- flow_part P k r (flows s);
  Ok (mkSt (fst fe) (if (snd fe : bool) then pq_set_inactive k (now + pI P) (queue s)
                     else pq_push k (now + pA P, now + pI P) (queue s))).
Proof.
  unfold add_or_update, flow_part.
  destruct (flow_type_of r); cbn [obind]; try reflexivity.
  destruct (is_correlation_required a r); cbn [obind]; try reflexivity.
  destruct (km_find k (flows s)).
  - match goal with |- obind ?o _ = _ => destruct o end; reflexivity.
  - match goal with |- obind ?o _ = _ => destruct o end; reflexivity.
Qed.

Lemma flow_part_exists P k r fl fe : flow_part P k r fl = Ok fe ->
  snd fe = match km_find k fl with Some _ => true | None => false end.
Proof.
  unfold flow_part.
  destruct (flow_type_of r); cbn [obind]; try discriminate.
  destruct (is_correlation_required a r); cbn [obind]; try discriminate.
  destruct (km_find k fl).
  - match goal with |- obind ?o _ = _ -> _ => destruct o end; cbn [obind]; try discriminate. intros [= <-]. reflexivity.
  - match goal with |- obind ?o _ = _ -> _ => destruct o end; cbn [obind]; try discriminate. intros [= <-]. reflexivity.
Qed.

Lemma rec_refines P now k r s c : Inv s -> R s c ->
  match flow_part P k r (flows s) with
  | Ok _ => exists s' c', add_or_update P now k r s = Ok s' /\ c_add_or_update P now k r c = Ok c' /\ R s' c'
  | _ => (forall s', add_or_update P now k r s <> Ok s') /\ (forall c', c_add_or_update P now k r c <> Ok c')
  end.
Proof.
  intros HI (Ef & Pm & HInv). rewrite add_or_update_flow_part. unfold c_add_or_update. rewrite <- Ef.
  destruct (flow_part P k r (flows s)) as [fe| | |] eqn:FP; cbn [obind]; try (split; intros; discriminate).
  pose proof (flow_part_exists _ _ _ _ _ FP) as Ex.
  destruct HI as (N1 & N2 & E).
  destruct (km_find k (flows s)) as [f|] eqn:Ff.
  - (* existing flow: Update *)
    rewrite Ex.
    destruct (km_find k (queue s)) as [d|] eqn:Fq; [|apply E in Fq; congruence].
    destruct (h_find_of_queue _ _ _ _ N2 Pm Fq) as (p & x & Hf & Hd).
    unfold pq_active_of. rewrite Hf.
    destruct (pq_Update_spec (cheap c) k p x (h_act x) (now + pI P) HInv Hf) as (h' & EU & HI' & Pm' & _).
    rewrite EU. cbn [obind].
    eexists. eexists. split; [reflexivity|]. split; [reflexivity|].
    split; [reflexivity|]. split; [|assumption]. cbn [queue cheap].
    unfold pq_set_inactive. rewrite Fq.
    eapply perm_trans; [|apply Permutation_sym; exact Pm'].
    rewrite map_set_nth.
    destruct (h_find_some _ _ _ _ Hf) as [Hp Hk].
    assert (Hp' : nth_error (map h_data (cheap c)) p = Some (k, d)) by (rewrite nth_error_map, Hp; cbn [option_map]; rewrite Hd; reflexivity).
    assert (Ed : h_data (h_set_times x (h_act x) (now + pI P)) = (k, (fst d, now + pI P))).
    { unfold h_data, h_set_times. cbn. unfold h_data in Hd. injection Hd as E1 E2. subst k d. reflexivity. }
    rewrite Ed.
    apply (Permutation_cons_inv (a := (k, d))).
    eapply perm_trans; [apply km_set_perm; exact Fq|].
    eapply perm_trans; [apply perm_skip; exact Pm|].
    apply Permutation_sym. apply perm_set_nth_cons. assumption.
  - (* new flow: heap.Push *)
    rewrite Ex.
    destruct (heap_Push_spec (cheap c) (mkH k (now + pA P) (now + pI P) 0) HInv) as (h' & EP & HI' & Pm' & _).
    rewrite EP. cbn [obind].
    eexists. eexists. split; [reflexivity|]. split; [reflexivity|].
    split; [reflexivity|]. split; [|assumption]. cbn [queue cheap].
    eapply perm_trans; [|apply Permutation_sym; exact Pm']. cbn.
    unfold pq_push, km_push. eapply perm_trans; [apply Permutation_sym, Permutation_cons_append|].
    apply perm_skip. assumption.
Qed.

(* ---- GetExpiryFromExpirePriorityQueue ---- *)
Lemma get_expiry_refines P now s c : R s c -> c_get_expiry P now c = get_expiry P now s.
Proof.
  intros (_ & Pm & HInv). unfold c_get_expiry, get_expiry.
  rewrite (min_deadline_root _ _ Pm HInv). destruct (cheap c); reflexivity.
Qed.

(* ---- heap.Pop is an accepted pick of the abstract queue ---- *)
Lemma pop_refines q h : NoDup (km_keys q) -> Permutation q (map h_data h) -> heap_inv h -> h <> [] ->
  exists x hp, heap_Pop h = Ok (x, hp) /\ h_idx x = -1 /\ h_data x = h_data (nth 0 h dummy) /\
    km_find (h_key x) q = Some (h_act x, h_inact x) /\
    is_min (h_act x, h_inact x) (km_remove (h_key x) q) = true /\
    Permutation (km_remove (h_key x) q) (map h_data hp) /\ heap_inv hp /\
    S (List.length hp) = List.length h.
Proof.
  intros ND Pm HInv NE.
  destruct (heap_Pop_spec h HInv NE) as (x & hp & E & HI' & Ix & Ed & Pm' & Min & Len).
  exists x, hp. split; [assumption|]. split; [assumption|]. split; [assumption|].
  assert (Iq : In (h_data x) q).
  { eapply Permutation_in; [apply Permutation_sym; exact Pm|].
    eapply Permutation_in; [exact Pm'|]. left. reflexivity. }
  assert (Hq : km_find (h_key x) q = Some (h_act x, h_inact x)) by (apply km_In_find; assumption).
  split; [assumption|]. split; [|split; [|split; assumption]].
  - unfold is_min. apply forallb_forall. intros it Iit. apply km_In_remove in Iit.
    eapply Permutation_in in Iit; [|exact Pm]. apply in_map_iff in Iit. destruct Iit as (y & <- & Iy).
    rewrite deadline_data. change (dl_min (h_act x, h_inact x)) with (h_min x).
    specialize (Min y Iy). destruct (Z.ltb_spec (h_min y) (h_min x)); [lia|reflexivity].
  - apply (Permutation_cons_inv (a := h_data x)).
    eapply perm_trans; [apply Permutation_sym, (km_remove_perm _ _ _ Hq)|].
    eapply perm_trans; [exact Pm|]. apply Permutation_sym. assumption.
Qed.

Lemma pop_is_accepted_pick q h :
  NoDup (km_keys q) -> Permutation q (map h_data h) -> heap_inv h -> h <> [] ->
  exists x hp, heap_Pop h = Ok (x, hp) /\ h_idx x = -1 /\
    pop_pick (h_key x) q = Some ((h_act x, h_inact x), km_remove (h_key x) q) /\
    Permutation (km_remove (h_key x) q) (map h_data hp) /\ heap_inv hp.
Proof.
  intros ND Pm HI NE.
  destruct (pop_refines q h ND Pm HI NE) as (x & hp & E & Ix & _ & Hq & Hmin & Pm' & HI' & _).
  exists x, hp. unfold pop_pick. rewrite Hq, Hmin. auto.
Qed.

Lemma push_refines q' hp x : Permutation q' (map h_data hp) -> heap_inv hp ->
  exists hp', heap_Push hp x = Ok hp' /\
    Permutation (pq_push (h_key x) (h_act x, h_inact x) q') (map h_data hp') /\ heap_inv hp'.
Proof.
  intros Pm HInv. destruct (heap_Push_spec hp x HInv) as (hp' & E & HI' & Pm' & _).
  exists hp'. split; [assumption|]. split; [|assumption].
  eapply perm_trans; [|apply Permutation_sym; exact Pm'].
  unfold pq_push, km_push. eapply perm_trans; [apply Permutation_sym, Permutation_cons_append|].
  apply perm_skip. assumption.
Qed.

Lemma due_count_le_length now q : (due_count now q <= List.length q)%nat.
Proof.
  unfold due_count. induction q as [|x q IH]; cbn; [lia|]. destruct (dl_min (snd x) <=? now); cbn; lia.
Qed.

(* ---- ForAllExpiredFlowRecordsDo ---- *)
Lemma cscan_loop_refines P now fails : wf_params P = true ->
  forall fuel s c cbs picks ix, Inv s -> R s c -> (due_count now (queue s) < fuel)%nat ->
  Forall (fun z => z = -1) ix ->
  exists o rest s', cscan_loop fuel P now fails c cbs picks ix = Ok o /\
    so_picks o = rev picks ++ rest /\
    scan_loop Fixed P now fails rest s cbs = Some (s', so_cbs o, so_err o) /\
    R s' (so_st o) /\ Forall (fun z => z = -1) (so_ix o).
Proof.
  intros WF. unfold wf_params in WF. apply andb_true_iff in WF. destruct WF as [PA PI].
  apply Z.ltb_lt in PA, PI.
  induction fuel as [|fuel IH]; intros s c cbs picks ix HI HR Hfuel Hix; [lia|].
  cbn [cscan_loop].
  pose proof HR as (Ef & Pm & HInv).
  pose proof (min_deadline_root _ _ Pm HInv) as MD.
  destruct (cheap c) as [|top h'] eqn:Hc.
  { (* Len() == 0 *)
    cbn [pq_Len List.length Nat.eqb].
    exists (mkOut c (rev cbs) (rev picks) (rev ix) false), [], s. cbn [so_picks so_cbs so_err so_st so_ix].
    split; [reflexivity|]. split; [rewrite app_nil_r; reflexivity|]. split; [cbn; rewrite MD; reflexivity|].
    split; [assumption|]. apply Forall_rev. assumption. }
  cbn [pq_Len List.length Nat.eqb pq_Peek obind].
  change (h_min top) with (dl_min (h_act top, h_inact top)) in MD.
  destruct ((now <? h_act top) && (now <? h_inact top)) eqn:Brk.
  { (* the top item is not due: break *)
    exists (mkOut c (rev cbs) (rev picks) (rev ix) false), [], s. cbn [so_picks so_cbs so_err so_st so_ix].
    split; [reflexivity|]. split; [rewrite app_nil_r; reflexivity|]. split.
    - cbn. rewrite MD. apply andb_true_iff in Brk. destruct Brk as [B1 B2]. apply Z.ltb_lt in B1, B2.
      assert (L : now < dl_min (h_act top, h_inact top)) by (apply dl_min_gt; cbn; lia).
      apply Z.ltb_lt in L. rewrite L. reflexivity.
    - split; [assumption|]. apply Forall_rev. assumption. }
  (* heap.Pop *)
  destruct HI as (N1 & N2 & E).
  destruct (pop_refines (queue s) (top :: h') N2 Pm HInv ltac:(discriminate))
    as (x & hp & EP & Ixx & Edx & Hq & Hmin & Pm1 & HI1 & Len1).
  rewrite EP. cbn [obind fst snd].
  cbn [nth] in Edx.
  assert (Ea : h_act x = h_act top) by (unfold h_data in Edx; congruence).
  assert (Ei : h_inact x = h_inact top) by (unfold h_data in Edx; congruence).
  set (p := h_key x) in *. set (d := (h_act x, h_inact x)) in *.
  assert (Hbrk : (now <? fst d) && (now <? snd d) = false) by (unfold d; cbn [fst snd]; rewrite Ea, Ei; assumption).
  assert (Hdue : dl_min d <= now).
  { apply dl_min_le. apply andb_false_iff in Hbrk. destruct Hbrk as [B|B]; apply Z.ltb_ge in B; lia. }
  destruct (km_find p (flows s)) as [f|] eqn:Hf; [|apply E in Hf; congruence].
  rewrite <- Ef, Hf.
  assert (HI : Inv s) by exact (conj N1 (conj N2 E)).
  pose proof (due_count_remove now p d (queue s) Hq Hdue) as DC.
  (* continue after this pick with related states *)
  assert (Cont : forall s1 c1 cbs1 ix1, Inv s1 -> R s1 c1 -> (due_count now (queue s1) < fuel)%nat ->
            Forall (fun z => z = -1) ix1 ->
            (forall rest, scan_loop Fixed P now fails (p :: rest) s cbs = scan_loop Fixed P now fails rest s1 cbs1) ->
            exists o rest s', cscan_loop fuel P now fails c1 cbs1 (p :: picks) ix1 = Ok o /\
              so_picks o = rev picks ++ rest /\
              scan_loop Fixed P now fails rest s cbs = Some (s', so_cbs o, so_err o) /\
              R s' (so_st o) /\ Forall (fun z => z = -1) (so_ix o)).
  { intros s1 c1 cbs1 ix1 I1 R1 D1 X1 Eq.
    destruct (IH s1 c1 cbs1 (p :: picks) ix1 I1 R1 D1 X1) as (o & rest & s' & Eo & Pk & Sc & Ro & Xo).
    exists o, (p :: rest), s'. split; [assumption|]. split; [rewrite Pk; cbn [rev]; rewrite <- app_assoc; reflexivity|].
    split; [rewrite Eq; assumption|]. split; assumption. }
  assert (Hix' : Forall (fun z => z = -1) (h_idx x :: ix)) by (constructor; assumption).
  destruct (f_ready f) eqn:Rdy; cbn [negb].
  - destruct (n_mem p fails) eqn:Hfail.
    + (* callback error: push back, return *)
      destruct (push_refines (km_remove p (queue s)) hp x Pm1 HI1) as (hp' & EPu & Pm2 & HI2).
      rewrite EPu. cbn [obind]. fold p in Pm2. fold d in Pm2.
      eexists. exists [p]. eexists. cbn [so_picks so_cbs so_err so_st so_ix].
      split; [reflexivity|]. split; [reflexivity|]. split.
      * cbn [scan_loop]. unfold pop_pick. rewrite Hq, Hmin, Hbrk, Hf, Rdy. cbn [negb]. rewrite Hfail. reflexivity.
      * split; [split; [reflexivity|split; assumption]|].
        apply Forall_rev. assumption.
    + destruct (h_inact x <=? now) eqn:Hin.
      * (* inactive expiry: delete *)
        destruct (shape_remove s p d f HI Hq Hf) as (I1 & _ & _).
        apply (Cont _ (mkC (km_remove p (flows s)) hp) (p :: cbs) (h_idx x :: ix) I1).
        -- split; [reflexivity|split; assumption].
        -- cbn [queue]. lia.
        -- assumption.
        -- intros rest. cbn [scan_loop]. unfold pop_pick. rewrite Hq, Hmin, Hbrk, Hf, Rdy. cbn [negb passed].
           rewrite Hfail. unfold d at 1. cbn [snd]. rewrite Hin. reflexivity.
      * destruct (h_act x <=? now) eqn:Hac.
        -- (* active expiry: re-arm *)
           destruct (push_refines (km_remove p (queue s)) hp (h_set_times x (now + pA P) (h_inact x)) Pm1 HI1)
             as (hp' & EPu & Pm2 & HI2).
           rewrite EPu. cbn [obind]. cbn [h_set_times h_key h_act h_inact] in Pm2. fold p in Pm2.
           destruct (shape_rearm s p d f HI Hq Hf (now + pA P, snd d)) as (I1 & _ & _).
           apply (Cont _ (mkC (flows s) hp') (p :: cbs) (h_idx x :: ix) I1).
           ++ split; [reflexivity|split; assumption].
           ++ cbn [queue]. rewrite due_count_push; [lia|]. apply dl_min_gt. cbn. apply Z.leb_gt in Hin. lia.
           ++ assumption.
           ++ intros rest. cbn [scan_loop]. unfold pop_pick. rewrite Hq, Hmin, Hbrk, Hf, Rdy. cbn [negb passed].
              rewrite Hfail. unfold d at 1 2. cbn [fst snd]. rewrite Hin, Hac. reflexivity.
        -- exfalso. apply Z.leb_gt in Hin, Hac. apply dl_min_le in Hdue. unfold d in Hdue. cbn in Hdue. lia.
  - destruct (pMR P <? f_retries f + 1) eqn:Hmr.
    + (* not ready, retries exhausted: delete *)
      destruct (shape_remove s p d f HI Hq Hf) as (I1 & _ & _).
      apply (Cont _ (mkC (km_remove p (flows s)) hp) cbs ix I1).
      * split; [reflexivity|split; assumption].
      * cbn [queue]. lia.
      * assumption.
      * intros rest. cbn [scan_loop]. unfold pop_pick. rewrite Hq, Hmin, Hbrk, Hf, Rdy. cbn [negb].
        rewrite Hmr. reflexivity.
    + (* not ready: one more retry, both deadlines re-armed *)
      destruct (push_refines (km_remove p (queue s)) hp (h_set_times x (now + pA P) (now + pI P)) Pm1 HI1)
        as (hp' & EPu & Pm2 & HI2).
      rewrite EPu. cbn [obind]. cbn [h_set_times h_key h_act h_inact] in Pm2. fold p in Pm2.
      destruct (shape_requeue s p d f HI Hq Hf
                  (mkFlow (f_ready f) (f_retries f + 1) (f_filled f) (f_v4 f) (f_rec f))
                  (now + pA P, now + pI P)) as (I1 & _ & _).
      rewrite Rdy in *.
      apply (Cont _ (mkC (km_put p (mkFlow false (f_retries f + 1) (f_filled f) (f_v4 f) (f_rec f)) (flows s)) hp') cbs ix I1).
      * split; [reflexivity|split; assumption].
      * cbn [queue]. rewrite due_count_push; [lia|]. apply dl_min_gt. cbn. lia.
      * assumption.
      * intros rest. cbn [scan_loop]. unfold pop_pick. rewrite Hq, Hmin, Hbrk, Hf, Rdy. cbn [negb].
        rewrite Hmr. reflexivity.
Qed.

Lemma cscan_refines P now fails s c : wf_params P = true -> Inv s -> R s c ->
  exists o s', cscan P now fails c = Ok o /\
    scan Fixed P now fails (so_picks o) s = Some (s', so_cbs o, so_err o) /\
    R s' (so_st o) /\ Forall (fun z => z = -1) (so_ix o).
Proof.
  intros WF HI HR. unfold cscan, scan.
  destruct (cscan_loop_refines P now fails WF (S (pq_Len (cheap c))) s c [] [] [] HI HR)
    as (o & rest & s' & E & Pk & Sc & Ro & Xo).
  - destruct HR as (_ & Pm & _). pose proof (due_count_le_length now (queue s)).
    apply Permutation_length in Pm. rewrite map_length in Pm. unfold pq_Len. lia.
  - constructor.
  - exists o, s'. cbn in Pk. rewrite Pk. auto.
Qed.

(* ---- whole histories ---- *)
Definition ent_rel (a : res * st) (e : cent) : Prop := fst a = ce_res e /\ R (snd a) (ce_st e).

Lemma crun_refines P : wf_params P = true ->
  forall ops now s c, Inv s -> R s c ->
  exists tr, run Fixed P (fill_picks ops (fst (crun P ops now c))) now s = (tr, snd (crun P ops now c)) /\
    snd (crun P ops now c) <> EndReject /\
    Forall2 ent_rel tr (fst (crun P ops now c)) /\
    Forall (fun e => Forall (fun z => z = -1) (ce_ix e)) (fst (crun P ops now c)).
Proof.
  intros WF. induction ops as [|o ops IH]; intros now s c HI HR.
  { exists []. cbn. repeat split; try constructor. discriminate. }
  cbn [crun].
  assert (Next : forall now' r s' e ops0, ce_res e = r -> step Fixed P now ops0 s = Done now' r s' ->
            Inv s' -> R s' (ce_st e) -> Forall (fun z => z = -1) (ce_ix e) ->
            (forall tl0, fill_picks (o :: ops) (e :: tl0) = ops0 :: fill_picks ops tl0) ->
            exists tr,
              run Fixed P (fill_picks (o :: ops) (fst (let '(tr0, en) := crun P ops now' (ce_st e) in (e :: tr0, en)))) now s =
                (tr, snd (let '(tr0, en) := crun P ops now' (ce_st e) in (e :: tr0, en))) /\
              snd (let '(tr0, en) := crun P ops now' (ce_st e) in (e :: tr0, en)) <> EndReject /\
              Forall2 ent_rel tr (fst (let '(tr0, en) := crun P ops now' (ce_st e) in (e :: tr0, en))) /\
              Forall (fun e => Forall (fun z => z = -1) (ce_ix e))
                     (fst (let '(tr0, en) := crun P ops now' (ce_st e) in (e :: tr0, en)))).
  { intros now' r s' e ops0 Er St I' R' X' Fp.
    destruct (IH now' s' (ce_st e) I' R') as (tr & Run & NR & F2 & FX).
    destruct (crun P ops now' (ce_st e)) as [tr0 en] eqn:CR. cbn [fst snd] in *.
    exists ((r, s') :: tr). rewrite Fp. cbn [run]. rewrite St, Run.
    split; [reflexivity|]. split; [assumption|]. split.
    - constructor; [split; cbn; [congruence|assumption]|assumption].
    - constructor; assumption. }
  destruct o as [k rec|d|fails picks|]; cbn [cstep].
  - (* record *)
    pose proof (rec_refines P now k rec s c HI HR) as RR.
    destruct (flow_part P k rec (flows s)) eqn:FP.
    + destruct RR as (s' & c' & A & C & R').
      rewrite C.
      apply (Next now RRec s' (mkEnt RRec [] c') (ORec k rec)); try reflexivity; try assumption.
      * cbn [step]. rewrite A. reflexivity.
      * apply (check_rec_ok _ _ _ _ _ _ HI A).
      * constructor.
    + destruct RR as [A C].
      destruct (c_add_or_update P now k rec c) eqn:CA; [exfalso; eapply C; reflexivity| | |];
        (exists []; cbn [fst snd fill_picks run step];
         destruct (add_or_update P now k rec s) eqn:AA; [exfalso; eapply A; reflexivity| | |];
         repeat split; try constructor; discriminate).
    + destruct RR as [A C].
      destruct (c_add_or_update P now k rec c) eqn:CA; [exfalso; eapply C; reflexivity| | |];
        (exists []; cbn [fst snd fill_picks run step];
         destruct (add_or_update P now k rec s) eqn:AA; [exfalso; eapply A; reflexivity| | |];
         repeat split; try constructor; discriminate).
    + destruct RR as [A C].
      destruct (c_add_or_update P now k rec c) eqn:CA; [exfalso; eapply C; reflexivity| | |];
        (exists []; cbn [fst snd fill_picks run step];
         destruct (add_or_update P now k rec s) eqn:AA; [exfalso; eapply A; reflexivity| | |];
         repeat split; try constructor; discriminate).
  - (* time step *)
    apply (Next (now + d) RAdv s (mkEnt RAdv [] c) (OAdv d)); try reflexivity; try assumption. constructor.
  - (* scan *)
    destruct (cscan_refines P now fails s c WF HI HR) as (o & s' & E & Sc & Ro & Xo).
    rewrite E.
    apply (Next now (RScan (so_err o) (so_cbs o) (so_picks o)) s'
                (mkEnt (RScan (so_err o) (so_cbs o) (so_picks o)) (so_ix o) (so_st o))
                (OScan fails (so_picks o))); try reflexivity; try assumption.
    + cbn [step]. rewrite Sc. reflexivity.
    + apply (scan_loop_spec P now fails WF _ _ _ _ _ _ HI Sc).
  - (* advertised expiry *)
    apply (Next now (RExp (c_get_expiry P now c)) s (mkEnt (RExp (c_get_expiry P now c)) [] c) OExp);
      try reflexivity; try assumption.
    + cbn [step]. rewrite (get_expiry_refines P now s c HR). reflexivity.
    + constructor.
Qed.

(* The corollary: the history whose scan picks are the array heap's own pops is accepted by the
   abstract model to the same end (never EndReject), its trace shows the same results and
   related states as the run on the array heap, and it satisfies the C06 oracle. *)
Lemma C06_concrete_heap_lemma P ops : wf_params P = true ->
  exists tr, run Fixed P (heap_picks P ops) 0 init = (tr, snd (crun P ops 0 cinit)) /\
    snd (crun P ops 0 cinit) <> EndReject /\
    Forall2 ent_rel tr (fst (crun P ops 0 cinit)) /\
    C06_holds_on P (heap_picks P ops) tr = true.
Proof.
  intros WF. destruct (crun_refines P WF ops 0 init cinit Inv_init R_init) as (tr & Run & NR & F2 & _).
  exists tr. unfold heap_picks. split; [assumption|]. split; [assumption|]. split; [assumption|].
  pose proof (C06_expiry_lemma P (fill_picks ops (fst (crun P ops 0 cinit))) WF) as H.
  rewrite Run in H. exact H.
Qed.

Lemma Forall2_In_right {A B} (Q : A -> B -> Prop) l l' y : Forall2 Q l l' -> In y l' -> exists x, In x l /\ Q x y.
Proof.
  induction 1 as [|a b l l' H F IH]; [intros []|]. intros [<-|I].
  - exists a. split; [left; reflexivity|assumption].
  - destruct (IH I) as (x & Ix & Qx). exists x. split; [right; assumption|assumption].
Qed.

(* every state the array-heap run reaches: a consistent heap holding exactly the flows of the map *)
Lemma crun_heap_inv P ops e : wf_params P = true -> In e (fst (crun P ops 0 cinit)) ->
  heap_inv (cheap (ce_st e)) /\ Forall (fun z => z = -1) (ce_ix e) /\
  NoDup (map h_key (cheap (ce_st e))) /\
  forall k, km_find k (cflows (ce_st e)) = None <-> h_find k (cheap (ce_st e)) = None.
Proof.
  intros WF I. destruct (crun_refines P WF ops 0 init cinit Inv_init R_init) as (tr & Run & NR & F2 & FX).
  rewrite Forall_forall in FX. specialize (FX e I).
  destruct (Forall2_In_right _ _ _ _ F2 I) as ([r s] & Ia & Er & (Ef & Pm & HInv)).
  cbn [snd fst] in *.
  assert (Is : Inv s).
  { apply (run_inv P WF (fill_picks ops (fst (crun P ops 0 cinit))) 0 init Inv_init r s). rewrite Run. exact Ia. }
  destruct Is as (N1 & N2 & E).
  split; [assumption|]. split; [assumption|].
  assert (ND : NoDup (map h_key (cheap (ce_st e)))).
  { pose proof (perm_keys_NoDup _ _ Pm N2) as X. unfold km_keys in X. rewrite map_map in X. exact X. }
  split; [assumption|]. intros k. rewrite <- Ef, E. split.
  - intros F. destruct (h_find k (cheap (ce_st e))) as [[p x]|] eqn:Hf; [|reflexivity]. exfalso.
    destruct (h_find_some _ _ _ _ Hf) as [Hp Hk].
    assert (Ix : In (h_data x) (queue s)).
    { eapply Permutation_in; [apply Permutation_sym; exact Pm|]. apply in_map. eapply nth_error_In; eassumption. }
    apply (km_In_find _ _ _ N2) in Ix. cbn in Ix. congruence.
  - intros Hf. destruct (km_find k (queue s)) as [d|] eqn:F; [|reflexivity]. exfalso.
    destruct (h_find_of_queue _ _ _ _ N2 Pm F) as (p & x & Hf' & _). congruence.
Qed.
