(* C20 under concurrency: the lock discipline of cmd/collector's store on the regenerated table,
   and the store as an instance of mutex linearizability (Proofs/Conc_lemmas.v). No axioms. *)
From Coq Require Import List Bool Arith NArith Lia String.
From Verif.Base Require Import Outcome.
From Verif.Model Require Import LockTab Conc Store StoreConc.
From Verif.Gen Require Import LocksCmdCollector.
From Verif.Proofs Require Import Conc_lemmas Store_lemmas.
Import ListNotations.
Local Notation length := List.length.

(* ---- the premises on the regenerated table: finite computations, re-done on every run ---- *)
Lemma store_lock_discipline_holds : store_lock_discipline = true.
Proof. vm_compute. reflexivity. Qed.

Lemma store_table_nonvacuous_holds : store_table_nonvacuous = true.
Proof. vm_compute. reflexivity. Qed.

Lemma store_lock_discipline_split :
  lockset_ok cc_thr cc_multi cmdcollector_accesses = true /\
  forallb (holds_w cmdcollector_v_mutex) store_rows = true /\
  guarded_by cmdcollector_v_mutex store_rows = true /\
  forallb cc_meth_ok cmdcollector_methods = true /\
  store_table_nonvacuous = true.
Proof.
  pose proof store_lock_discipline_holds as H. unfold store_lock_discipline in H.
  apply andb_true_iff in H. destruct H as (H & H4).
  apply andb_true_iff in H. destruct H as (H & H3).
  apply andb_true_iff in H. destruct H as (H1 & H2).
  split; [exact H1|]. split; [exact H2|]. split; [exact H3|]. split; [exact H4|].
  exact store_table_nonvacuous_holds.
Qed.

(* every access to flowRecords listed by the translator, whoever makes it, holds the mutex *)
Lemma store_every_access_locked : forall a,
  In a cmdcollector_accesses -> a_field a = cmdcollector_v_flowRecords ->
  a_known a = true /\ exists l, In l (a_locks a) /\ fst l = cmdcollector_v_mutex /\ snd l = LW.
Proof.
  intros a Hin Hf. destruct store_lock_discipline_split as (L & W & _).
  split.
  - unfold lockset_ok in L. apply andb_true_iff in L. destruct L as (K & _).
    rewrite forallb_forall in K. apply K, Hin.
  - rewrite forallb_forall in W.
    assert (In a store_rows) as Hs.
    { unfold store_rows. apply filter_In. split; [exact Hin|]. rewrite Hf. apply Nat.eqb_refl. }
    specialize (W a Hs). unfold holds_w in W. apply existsb_exists in W.
    destruct W as (l & Hl & Hb). apply andb_true_iff in Hb. destruct Hb as (E & M).
    exists l. split; [exact Hl|]. split; [apply Nat.eqb_eq, E|]. destruct (snd l); [discriminate|reflexivity].
Qed.

Theorem store_race_free : forall tr,
  lock_wf tr -> consistent cc_thr cc_multi cmdcollector_accesses tr ->
  forall p3 t2 b r2 p2 t1 a r1 p1,
    tr = p3 ++ (t2, Acc b r2) :: p2 ++ (t1, Acc a r1) :: p1 ->
    t1 <> t2 -> racy a b = true -> ordered_between t1 t2 p2.
Proof.
  intros tr Hw Hc. eapply lockset_race_free; eauto.
  exact (proj1 store_lock_discipline_split).
Qed.

(* ---- the cut the Go code makes composes to Store.step ---- *)
Lemma go_micro_ok : forall cap, (1 <= cap)%nat ->
  forall e s, apply_all store (go_micro cap e) s = Store.step cap s e.
Proof.
  intros cap Hc e s. destruct e as [m|meth c f|meth]; cbn.
  - unfold arrive. destruct (render m) as [x| | |]; cbn; try reflexivity.
    unfold add. destruct (Nat.leb cap (length s)) eqn:E.
    + destruct s as [|y t].
      * apply Nat.leb_le in E. cbn in E. lia.
      * cbn. replace (Nat.leb cap (S (length t))) with true by (symmetry; exact E). reflexivity.
    + rewrite E. reflexivity.
  - reflexivity.
  - unfold reset. destruct (String.eqb meth "POST"); reflexivity.
Qed.

Section StoreProofs.
  Variable cap : nat.
  Hypothesis cap_pos : (1 <= cap)%nat.
  Variable micro : event -> list (store -> store).
  Hypothesis micro_ok : forall e s, apply_all store (micro e) s = Store.step cap s e.

  Notation srun := (store_conc_run cap micro).
  Notation sres := (store_res cap).

  Lemma seq_state_store : forall ops s,
    seq_state store event sresult micro sres ops s = Store.run cap (events_in ops) s.
  Proof.
    unfold Conc.seq_state, Store.run, events_in. induction ops as [|i r IH]; intros s; cbn; [reflexivity|].
    rewrite micro_ok. apply IH.
  Qed.
  Lemma seq_results_store : forall ops s,
    seq_results store event sresult micro sres ops s = store_seq_results cap ops s.
  Proof.
    induction ops as [|i r IH]; intros s; cbn; [reflexivity|].
    rewrite micro_ok, IH. reflexivity.
  Qed.

  (* every concurrent history equals the sequential one in lock-acquisition order: the store once
     the lock holder finishes is Store.run over the operations in that order, hence the window of
     the arrivals in that order; the responses returned so far are the sequential results *)
  Theorem store_linearizable : forall progs sched,
    let g := srun progs sched in
    let order := lin event sresult (hist g) in
    finish store event sresult g = Store.run cap (events_in order) [] /\
    finish store event sresult g = lastn cap (arrivals (events_in order) []) /\
    (length (finish store event sresult g) <= cap)%nat /\
    exists pending, store_seq_results cap order [] = rels event sresult (hist g) ++ pending /\
                    (holder g = None -> pending = []) /\ (length pending <= 1)%nat.
  Proof.
    intros progs sched. cbv zeta.
    pose proof (mutex_linearizable store event sresult micro sres progs [] sched) as M. cbv zeta in M.
    change (Conc.run store event sresult micro sres (init store event sresult progs []) sched)
      with (srun progs sched) in M.
    destruct M as (Hs & pend & Hr & Hp & Hl).
    rewrite seq_state_store in Hs. rewrite seq_results_store in Hr.
    destruct (run_window cap (events_in (lin event sresult (hist (srun progs sched)))) cap_pos) as (W1 & W2).
    split; [exact Hs|]. split; [rewrite Hs; exact W1|]. split; [rewrite Hs; exact W2|].
    exists pend. auto.
  Qed.

  (* what a sequential result is: the operation applied to the window of the arrivals that precede it *)
  Lemma store_seq_results_char : forall ops acc i r,
    In (i, r) (store_seq_results cap ops (lastn cap acc)) ->
    exists before after, ops = before ++ i :: after /\
      r = sres (op_of i) (lastn cap (arrivals (events_in before) acc)).
  Proof.
    induction ops as [|j rest IH]; intros acc i r Hin; cbn in Hin; [contradiction|].
    destruct Hin as [E|Hin].
    - inversion E; subst. exists [], rest. split; reflexivity.
    - rewrite step_window in Hin by exact cap_pos.
      destruct (IH _ _ _ Hin) as (b & a & E1 & E2).
      exists (j :: b), a. split; [rewrite E1; reflexivity|]. exact E2.
  Qed.

  (* every response handed out under any schedule is the sequential answer on the window of the
     arrivals linearized before it - in particular every records query (C20_query applies) *)
  Theorem store_responses : forall progs sched i r,
    let g := srun progs sched in
    In (i, r) (rels event sresult (hist g)) ->
    exists before after, lin event sresult (hist g) = before ++ i :: after /\
      r = sres (op_of i) (lastn cap (arrivals (events_in before) [])).
  Proof.
    intros progs sched i r. cbv zeta. intros Hin.
    pose proof (store_linearizable progs sched) as L. cbv zeta in L.
    destruct L as (_ & _ & _ & pend & Hr & _).
    assert (In (i, r) (store_seq_results cap (lin event sresult (hist (srun progs sched))) (lastn cap []))) as H.
    { rewrite lastn_nil. rewrite Hr. apply in_or_app. left. exact Hin. }
    exact (store_seq_results_char _ _ _ _ H).
  Qed.

  Theorem store_real_time : forall progs s1 s2 a r b,
    let g1 := srun progs s1 in
    let g2 := srun progs (s1 ++ s2) in
    In (ERel a r) (hist g1) -> ~ In (EInv b) (hist g1) -> In b (lin event sresult (hist g2)) ->
    exists l1 l2 l3, lin event sresult (hist g2) = l1 ++ a :: l2 ++ b :: l3.
  Proof. intros. eapply mutex_real_time; eauto. Qed.

  Theorem store_program_order : forall progs sched t,
    exists rest, proj event t (lin event sresult (hist (srun progs sched))) ++ rest = progs t.
  Proof. intros. apply mutex_program_order. Qed.
End StoreProofs.

(* ---- non-vacuity: an arrival at the cap interleaved, micro-step by micro-step, with a query ---- *)
Local Open Scope string_scope.
Definition exc_msg (q : N) : msg := mkMsg 10 20 1000 "t" q 1 (TemplateSet []).
Definition exc_progs (t : nat) : list event :=
  match t with
  | 0 => [EArrive (exc_msg 1); EArrive (exc_msg 2); EArrive (exc_msg 3)]
  | 1 => [EQuery "GET" "" "text"; EReset "POST"]
  | 2 => [EQuery "GET" "1" "json"]
  | _ => []
  end.
(* thread 0 arrives twice (cap 2 reached); its third arrival acquires the lock and has blanked slot 0
   when threads 1 and 2 invoke their queries and try to acquire (blocked) = exc_mid; it finishes;
   thread 1's query, thread 2's query, thread 1's reset follow = exc_final *)
Definition exc_sched1 : list nat := [0;0;0;0;0;0; 0;0;0;0;0;0; 0;0;0; 1;1;2;2].
Definition exc_sched2 : list nat := [0;0;0; 1;1; 2;2; 1;1;1;1].
Definition exc_mid := store_conc_run 2 (go_micro 2) exc_progs exc_sched1.
Definition exc_final := store_conc_run 2 (go_micro 2) exc_progs (exc_sched1 ++ exc_sched2).
