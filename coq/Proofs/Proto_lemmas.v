(* Lemmas about the proto3 wire model (Model/Proto.v): varint and field round trips,
   encode/decode round trip of a whole message. *)
From Coq Require Import List Bool Arith NArith ZArith Lia String.
From Coq Require Import ZifyN ZifyNat ZifyBool.
From Coq.Strings Require Import Byte.
From Verif.Base Require Import Bytes.
From Verif.Proofs Require Import Bytes_lemmas.
From Verif.Model Require Import Proto.
Import ListNotations.
Local Open Scope N_scope.
Local Notation length := List.length.

(* ---------------------------------------------------------------- varint *)
Lemma varint_aux_nonempty fuel n : exists b l, varint_aux (S fuel) n = b :: l.
Proof. cbn [varint_aux]. destruct (n <? 128); eauto. Qed.

Lemma varint_nonempty n : exists b l, varint n = b :: l.
Proof. apply varint_aux_nonempty. Qed.

Lemma b2n_n2b_small n : n < 256 -> b2n (n2b n) = n.
Proof. intros H. rewrite b2n_n2b. now apply N.mod_small. Qed.

Lemma varint_aux_S f n :
  varint_aux (S f) n = if n <? 128 then [n2b n] else n2b (128 + n mod 128) :: varint_aux f (n / 128).
Proof. reflexivity. Qed.
Lemma dec_varint_aux_S f b r shift acc :
  dec_varint_aux (S f) (b :: r) shift acc =
  if b2n b <? 128 then Some (acc + b2n b * 2 ^ shift, r)
  else dec_varint_aux f r (shift + 7) (acc + (b2n b - 128) * 2 ^ shift).
Proof. reflexivity. Qed.

Lemma dec_varint_aux_varint : forall fuel n rest shift acc,
  n < 128 ^ N.of_nat (S fuel) ->
  dec_varint_aux (S fuel) (varint_aux (S fuel) n ++ rest) shift acc = Some (acc + n * 2 ^ shift, rest).
Proof.
  induction fuel as [|f IH]; intros n rest shift acc Hn.
  - rewrite varint_aux_S. change (128 ^ N.of_nat 1) with 128 in Hn.
    replace (n <? 128) with true by (symmetry; apply N.ltb_lt; exact Hn).
    cbn [app]. rewrite dec_varint_aux_S. rewrite b2n_n2b_small by lia.
    replace (n <? 128) with true by (symmetry; apply N.ltb_lt; exact Hn). reflexivity.
  - rewrite varint_aux_S. destruct (n <? 128) eqn:E.
    + apply N.ltb_lt in E. cbn [app]. rewrite dec_varint_aux_S. rewrite b2n_n2b_small by lia.
      replace (n <? 128) with true by (symmetry; apply N.ltb_lt; exact E). reflexivity.
    + apply N.ltb_ge in E.
      assert (Hr : n mod 128 < 128) by (apply N.mod_lt; lia).
      rewrite <- app_comm_cons. rewrite dec_varint_aux_S.
      rewrite b2n_n2b_small by lia.
      replace (128 + n mod 128 <? 128) with false by (symmetry; apply N.ltb_ge; lia).
      rewrite IH.
      * f_equal. f_equal.
        replace (128 + n mod 128 - 128) with (n mod 128) by lia.
        rewrite N.pow_add_r. change (2 ^ 7) with 128.
        rewrite (N.div_mod n 128) at 3 by lia. ring.
      * replace (N.of_nat (S (S f))) with (N.succ (N.of_nat (S f))) in Hn by lia.
        rewrite N.pow_succ_r' in Hn. apply N.div_lt_upper_bound; lia.
Qed.

Lemma dec_varint_varint n rest : n < 18446744073709551616 ->
  dec_varint (varint n ++ rest) = Some (n, rest).
Proof.
  intros H. unfold dec_varint, varint. rewrite dec_varint_aux_varint.
  - rewrite N.mul_1_r, N.add_0_l. replace (n <? 18446744073709551616) with true; [reflexivity|].
    symmetry. now apply N.ltb_lt.
  - eapply N.lt_trans; [exact H|]. reflexivity.
Qed.

(* ---------------------------------------------------------------- one field *)
Lemma parse_unfold f sch bs acc : bs <> [] ->
  parse (S f) sch bs acc =
  match dec_varint bs with
  | None => None
  | Some (key, r) =>
    let num := key / 8 in
    let wt := key mod 8 in
    if N.eqb num 0 || (536870911 <? num) then None
    else if N.eqb wt 0 then
      match dec_varint r with
      | None => None
      | Some (v, r') =>
          parse f sch r'
            (match kind_of sch num with
             | Some KU32 => (num, PU (v mod 4294967296)) :: acc
             | Some KU64 => (num, PU v) :: acc
             | _ => acc
             end)
      end
    else if N.eqb wt 2 then
      match dec_varint r with
      | None => None
      | Some (len, r') =>
          if N.of_nat (length r') <? len then None
          else
            let s := firstn (N.to_nat len) r' in
            let rest := skipn (N.to_nat len) r' in
            match kind_of sch num with
            | Some KStr => if valid_utf8 s then parse f sch rest ((num, PS s) :: acc) else None
            | _ => parse f sch rest acc
            end
      end
    else if N.eqb wt 1 then match drop 8 r with Some r' => parse f sch r' acc | None => None end
    else if N.eqb wt 5 then match drop 4 r with Some r' => parse f sch r' acc | None => None end
    else None
  end.
Proof. intros H. destruct bs; [congruence|reflexivity]. Qed.

Lemma app_nonempty_l {A} (a b : list A) : a <> [] -> a ++ b <> [].
Proof. destruct a; [congruence|discriminate]. Qed.
Lemma varint_neq_nil n : varint n <> [].
Proof. destruct (varint_nonempty n) as [b [l ->]]. discriminate. Qed.

Lemma knum_ok k : 1 <= k -> k <= 536870911 -> N.eqb k 0 || (536870911 <? k) = false.
Proof.
  intros H1 H2. apply orb_false_intro; [apply N.eqb_neq; lia|apply N.ltb_ge; lia].
Qed.

Definition field_ok (sch : schema) (k : N) (kd : pkind) : Prop :=
  kind_of sch k = Some kd /\ 1 <= k /\ k <= 536870911.

(* a populated field, as the encoder writes it, is consumed by one step of the decoder,
   which records exactly that value *)
Lemma parse_field f sch k kd v bs rest acc :
  field_ok sch k kd -> value_ok kd v = true -> is_default v = false ->
  encode_field k kd v = Some bs ->
  bs <> [] /\ parse (S f) sch (bs ++ rest) acc = parse f sch rest ((k, v) :: acc).
Proof.
  intros [Hk [Hk1 Hk2]] Hv Hd He.
  destruct kd, v as [n|s]; try discriminate.
  - (* uint32 *)
    cbn [encode_field] in He. cbn [is_default] in Hd. rewrite Hd in He.
    assert (bs = varint (k * 8) ++ varint n) as -> by congruence.
    cbn [value_ok] in Hv. apply N.ltb_lt in Hv.
    split; [apply app_nonempty_l, varint_neq_nil|].
    rewrite parse_unfold by (apply app_nonempty_l, app_nonempty_l, varint_neq_nil).
    rewrite <- !app_assoc. rewrite dec_varint_varint by lia. cbv zeta.
    replace (k * 8 / 8) with k by (symmetry; apply N.div_mul; lia).
    replace (k * 8 mod 8) with 0 by (symmetry; apply N.mod_mul; lia).
    rewrite (knum_ok k Hk1 Hk2).
    cbn [N.eqb]. rewrite dec_varint_varint by lia. rewrite Hk.
    rewrite N.mod_small by lia. reflexivity.
  - (* uint64 *)
    cbn [encode_field] in He. cbn [is_default] in Hd. rewrite Hd in He.
    assert (bs = varint (k * 8) ++ varint n) as -> by congruence.
    cbn [value_ok] in Hv. apply N.ltb_lt in Hv.
    split; [apply app_nonempty_l, varint_neq_nil|].
    rewrite parse_unfold by (apply app_nonempty_l, app_nonempty_l, varint_neq_nil).
    rewrite <- !app_assoc. rewrite dec_varint_varint by lia. cbv zeta.
    replace (k * 8 / 8) with k by (symmetry; apply N.div_mul; lia).
    replace (k * 8 mod 8) with 0 by (symmetry; apply N.mod_mul; lia).
    rewrite (knum_ok k Hk1 Hk2).
    cbn [N.eqb]. rewrite dec_varint_varint by lia. rewrite Hk. reflexivity.
  - (* string *)
    cbn [value_ok] in Hv. apply andb_true_iff in Hv. destruct Hv as [Hu Hl]. apply N.ltb_lt in Hl.
    destruct s as [|c s']; [discriminate|]. set (s := c :: s') in *.
    cbn [encode_field] in He. unfold s in He at 1. fold s in He. rewrite Hu in He.
    assert (bs = varint (k * 8 + 2) ++ varint (N.of_nat (length s)) ++ s) as -> by congruence.
    split; [apply app_nonempty_l, varint_neq_nil|].
    rewrite parse_unfold by (apply app_nonempty_l, app_nonempty_l, varint_neq_nil).
    rewrite <- !app_assoc. rewrite dec_varint_varint by lia. cbv zeta.
    replace ((k * 8 + 2) / 8) with k
      by (symmetry; rewrite N.add_comm; rewrite N.div_add by lia; reflexivity).
    replace ((k * 8 + 2) mod 8) with 2
      by (symmetry; rewrite N.add_comm; rewrite N.mod_add by lia; reflexivity).
    rewrite (knum_ok k Hk1 Hk2).
    cbn [N.eqb Pos.eqb]. rewrite dec_varint_varint by lia.
    replace (N.of_nat (length (s ++ rest)) <? N.of_nat (length s)) with false
      by (symmetry; apply N.ltb_ge; rewrite app_length; lia).
    rewrite Nat2N.id. rewrite firstn_app, Nat.sub_diag, firstn_all. cbn [firstn]. rewrite app_nil_r.
    rewrite skipn_app, Nat.sub_diag, skipn_all. cbn [skipn app].
    rewrite Hk, Hu. reflexivity.
Qed.

(* ---------------------------------------------------------------- whole messages *)
(* the populated fields, in schema (= wire) order *)
Definition fields_of (suf : schema) (st : pstruct) : pstruct :=
  flat_map (fun f => let v := getf (snd f) (fst f) st in
                     if is_default v then [] else [(fst f, v)]) suf.

Lemma value_ok_default kd v : value_ok kd v = true -> is_default v = true -> v = pdefault kd.
Proof.
  destruct kd, v as [n|s]; cbn; intros H D; try discriminate.
  - apply N.eqb_eq in D. now subst.
  - apply N.eqb_eq in D. now subst.
  - destruct s; [reflexivity|discriminate].
Qed.

Lemma encode_field_default k kd v a :
  value_ok kd v = true -> is_default v = true -> encode_field k kd v = Some a -> a = [].
Proof.
  intros H D E. rewrite (value_ok_default kd v H D) in E.
  destruct kd; cbn in E; congruence.
Qed.

Lemma encode_field_total k kd v : value_ok kd v = true -> exists a, encode_field k kd v = Some a.
Proof.
  destruct kd, v as [n|s]; cbn [value_ok]; intros H; try discriminate; cbn [encode_field]; eauto.
  apply andb_true_iff in H. destruct H as [Hu _]. destruct s; [eauto|]. rewrite Hu. eauto.
Qed.

Definition fields_ok (sch suf : schema) (st : pstruct) : Prop :=
  forall k kd, In (k, kd) suf -> field_ok sch k kd /\ value_ok kd (getf kd k st) = true.

Lemma fields_ok_tl sch f suf st : fields_ok sch (f :: suf) st -> fields_ok sch suf st.
Proof. intros H k kd Hin. apply H. now right. Qed.

Lemma encode_total sch suf st : fields_ok sch suf st -> exists bs, encode suf st = Some bs.
Proof.
  induction suf as [|[k kd] r IH]; intros H; [cbn; eauto|].
  destruct (H k kd (or_introl eq_refl)) as [_ Hv].
  destruct (encode_field_total k kd _ Hv) as [a Ha].
  destruct (IH (fields_ok_tl _ _ _ _ H)) as [b Hb].
  exists (a ++ b). cbn [encode]. now rewrite Ha, Hb.
Qed.

Lemma encode_parse sch st : forall suf bs acc fuel,
  fields_ok sch suf st -> encode suf st = Some bs -> (length bs < fuel)%nat ->
  parse fuel sch bs acc = Some (rev (fields_of suf st) ++ acc).
Proof.
  induction suf as [|[k kd] r IH]; intros bs acc fuel H E L.
  - cbn in E. assert (bs = []) as -> by congruence. destruct fuel; reflexivity.
  - cbn [encode] in E.
    destruct (H k kd (or_introl eq_refl)) as [Hf Hv].
    destruct (encode_field k kd (getf kd k st)) as [a|] eqn:Ea; [|discriminate].
    destruct (encode r st) as [b|] eqn:Eb; [|discriminate].
    assert (bs = a ++ b) as -> by congruence.
    unfold fields_of. cbn [flat_map fst snd]. fold (fields_of r st).
    destruct (is_default (getf kd k st)) eqn:D.
    + rewrite (encode_field_default _ _ _ _ Hv D Ea) in *. cbn [app] in *.
      apply IH; [eapply fields_ok_tl; eauto|reflexivity|exact L].
    + destruct fuel as [|f]; [inversion L|].
      destruct (parse_field f sch k kd _ a b acc Hf Hv D Ea) as [Hne Hp].
      rewrite Hp. rewrite app_length in L.
      assert (length a <> 0)%nat by (destruct a; [congruence|discriminate]).
      rewrite (IH b ((k, getf kd k st) :: acc) f); [|eapply fields_ok_tl; eauto|reflexivity|lia].
      cbn [app rev]. now rewrite <- app_assoc.
Qed.

(* ---------------------------------------------------------------- schema facts *)
Lemma increasing_facts : forall sch prev, increasing prev sch = true ->
  NoDup (map fst sch) /\
  forall k kd, In (k, kd) sch -> prev < k /\ k <= 536870911 /\ kd <> KOther.
Proof.
  induction sch as [|[k kd] r IH]; intros prev H.
  - split; [constructor|intros ? ? []].
  - cbn [increasing] in H. apply andb_true_iff in H. destruct H as [H Hr].
    apply andb_true_iff in H. destruct H as [H Hk3].
    apply andb_true_iff in H. destruct H as [Hk1 Hk2].
    apply N.ltb_lt in Hk1. apply N.leb_le in Hk2.
    destruct (IH k Hr) as [Hnd Hall]. split.
    + cbn [map fst]. constructor; [|exact Hnd].
      intros Hin. apply in_map_iff in Hin. destruct Hin as [[k' kd'] [Hk' Hin]]. cbn in Hk'. subst k'.
      destruct (Hall k kd' Hin) as [Hlt _]. lia.
    + intros k' kd' [Heq|Hin].
      * inversion Heq; subst. repeat split; try lia. destruct kd'; congruence.
      * destruct (Hall k' kd' Hin) as [A [B C]]. repeat split; try lia. exact C.
Qed.

Lemma kind_of_in sch : NoDup (map fst sch) -> forall k kd, In (k, kd) sch -> kind_of sch k = Some kd.
Proof.
  induction sch as [|[k0 kd0] r IH]; intros Hnd k kd Hin; [destruct Hin|].
  cbn [map fst] in Hnd. inversion Hnd as [|? ? Hnot Hnd']; subst.
  cbn [kind_of]. destruct Hin as [Heq|Hin].
  - inversion Heq; subst. now rewrite N.eqb_refl.
  - destruct (N.eqb k0 k) eqn:E.
    + apply N.eqb_eq in E. subst k0. exfalso. apply Hnot. apply in_map_iff. exists (k, kd). split; [reflexivity|exact Hin].
    + now apply IH.
Qed.

(* ---------------------------------------------------------------- lookups in the decoded struct *)
Lemma assigned_notin k l : ~ In k (map fst l) -> assigned k l = None.
Proof.
  induction l as [|[k0 v0] r IH]; intros H; [reflexivity|].
  cbn [assigned]. destruct (N.eqb k0 k) eqn:E.
  - apply N.eqb_eq in E. subst. exfalso. apply H. now left.
  - apply IH. intros Hin. apply H. now right.
Qed.

Lemma assigned_in k v l : NoDup (map fst l) -> In (k, v) l -> assigned k l = Some v.
Proof.
  induction l as [|[k0 v0] r IH]; intros Hnd Hin; [destruct Hin|].
  cbn [map fst] in Hnd. inversion Hnd as [|? ? Hnot Hnd']; subst.
  cbn [assigned]. destruct Hin as [Heq|Hin].
  - inversion Heq; subst. now rewrite N.eqb_refl.
  - destruct (N.eqb k0 k) eqn:E.
    + apply N.eqb_eq in E. subst k0. exfalso. apply Hnot. apply in_map_iff. exists (k, v). split; [reflexivity|exact Hin].
    + now apply IH.
Qed.

Lemma fields_of_keys suf st k : In k (map fst (fields_of suf st)) ->
  exists kd, In (k, kd) suf /\ is_default (getf kd k st) = false.
Proof.
  induction suf as [|[k0 kd0] r IH]; intros H; [destruct H|].
  unfold fields_of in H. cbn [flat_map fst snd] in H. fold (fields_of r st) in H.
  rewrite map_app in H. apply in_app_or in H. destruct H as [H|H].
  - destruct (is_default (getf kd0 k0 st)) eqn:D; [destruct H|].
    cbn in H. destruct H as [<-|[]]. exists kd0. split; [now left|exact D].
  - destruct (IH H) as [kd [A B]]. exists kd. split; [now right|exact B].
Qed.

Lemma fields_of_nodup suf st : NoDup (map fst suf) -> NoDup (map fst (fields_of suf st)).
Proof.
  induction suf as [|[k0 kd0] r IH]; intros Hnd; [constructor|].
  cbn [map fst] in Hnd. inversion Hnd as [|? ? Hnot Hnd']; subst.
  unfold fields_of. cbn [flat_map fst snd]. fold (fields_of r st).
  destruct (is_default (getf kd0 k0 st)); cbn [app map fst]; [now apply IH|].
  constructor; [|now apply IH].
  intros Hin. destruct (fields_of_keys _ _ _ Hin) as [kd [A _]].
  apply Hnot. apply in_map_iff. exists (k0, kd). split; [reflexivity|exact A].
Qed.

Lemma fields_of_in suf st k kd : In (k, kd) suf -> is_default (getf kd k st) = false ->
  In (k, getf kd k st) (fields_of suf st).
Proof.
  induction suf as [|[k0 kd0] r IH]; intros Hin D; [destruct Hin|].
  unfold fields_of. cbn [flat_map fst snd]. fold (fields_of r st). apply in_or_app.
  destruct Hin as [Heq|Hin].
  - inversion Heq; subst. left. rewrite D. now left.
  - right. now apply IH.
Qed.

(* ---------------------------------------------------------------- round trip *)
Definition struct_ok (sch : schema) (st : pstruct) : Prop :=
  forall k kd, In (k, kd) sch -> value_ok kd (getf kd k st) = true.

Lemma wf_struct_ok sch st : wf_struct sch st = true -> struct_ok sch st.
Proof.
  unfold wf_struct. intros H k kd Hin. rewrite forallb_forall in H. exact (H (k, kd) Hin).
Qed.

Theorem proto_roundtrip sch st : wf_schema sch = true -> wf_struct sch st = true ->
  exists bs st', encode sch st = Some bs /\ decode sch bs = Some st' /\
    forall k kd, In (k, kd) sch -> getf kd k st' = getf kd k st.
Proof.
  intros Hs Hst. apply wf_struct_ok in Hst.
  destruct (increasing_facts sch 0 Hs) as [Hnd Hall].
  assert (Hok : fields_ok sch sch st).
  { intros k kd Hin. destruct (Hall k kd Hin) as [A [B C]]. split; [|now apply Hst].
    split; [now apply kind_of_in|]. split; lia. }
  destruct (encode_total sch sch st Hok) as [bs Hbs].
  exists bs, (rev (fields_of sch st) ++ []). split; [exact Hbs|]. split.
  - unfold decode. apply encode_parse; [exact Hok|exact Hbs|lia].
  - intros k kd Hin. rewrite app_nil_r. unfold getf at 1.
    assert (Hnd' : NoDup (map fst (rev (fields_of sch st)))).
    { rewrite map_rev. apply NoDup_rev. now apply fields_of_nodup. }
    destruct (is_default (getf kd k st)) eqn:D.
    + rewrite assigned_notin.
      * symmetry. apply value_ok_default; [now apply Hst|exact D].
      * rewrite map_rev. rewrite <- in_rev. intros Hk.
        destruct (fields_of_keys _ _ _ Hk) as [kd' [A B]].
        assert (kd' = kd).
        { assert (E1 := kind_of_in sch Hnd k kd' A). assert (E2 := kind_of_in sch Hnd k kd Hin). congruence. }
        subst kd'. congruence.
    + rewrite (assigned_in k (getf kd k st)); [reflexivity|exact Hnd'|].
      rewrite <- in_rev. now apply fields_of_in.
Qed.
