(* C15 lifted over records and data sets: the collector's record loop applied to the
   concatenated encodings of well-typed records returns exactly those records. *)
From Coq Require Import List Bool Arith NArith ZArith Lia String.
From Coq Require Import ZifyN ZifyNat ZifyBool.
From Coq.Strings Require Import Byte.
From Verif.Base Require Import Bytes Outcome.
From Verif.Model Require Import IE Codec.
From Verif.Proofs Require Import Bytes_lemmas Codec_lemmas.
Import ListNotations.
Local Open Scope N_scope.
Local Notation length := List.length.

Definition norm_record (r : list (ie * value)) : list (ie * value) :=
  map (fun ev => (fst ev, norm (fst ev) (snd ev))) r.

(* a record is for template tpl: same elements, in order *)
Definition for_template (tpl : list ie) (r : list (ie * value)) : Prop := map fst r = tpl.

Lemma decode_fields_enc : forall r bs rest,
  wf_record r = true -> enc_all r = Some bs ->
  decode_fields_k keep_all (map fst r) (bs ++ rest) = Ok (norm_record r, rest).
Proof.
  induction r as [|[e v] r IH]; intros bs rest W E.
  - injection E as <-. reflexivity.
  - cbn [wf_record forallb fst snd] in W. apply andb_true_iff in W as [W1 W2].
    cbn [enc_all] in E. destruct (enc e v) as [a|] eqn:Ea; [|discriminate].
    destruct (enc_all r) as [b|] eqn:Eb; [|discriminate].
    assert (bs = a ++ b) as -> by congruence.
    cbn [map fst decode_fields_k]. rewrite <- app_assoc.
    rewrite (decode_enc e v a (b ++ rest) W1 Ea). cbn [obind].
    rewrite (IH b rest W2 eq_refl). cbn [obind keep_all norm_record map fst snd]. reflexivity.
Qed.

Lemma min_record_len_le : forall r bs,
  wf_record r = true -> enc_all r = Some bs -> (min_record_len (map fst r) <= length bs)%nat.
Proof.
  induction r as [|[e v] r IH]; intros bs W E.
  - cbn. lia.
  - cbn [wf_record forallb fst snd] in W. apply andb_true_iff in W as [W1 W2].
    cbn [enc_all] in E. destruct (enc e v) as [a|] eqn:Ea; [|discriminate].
    destruct (enc_all r) as [b|] eqn:Eb; [|discriminate].
    assert (bs = a ++ b) as -> by congruence.
    cbn [map fst min_record_len fold_right]. rewrite app_length.
    destruct (min_field_bound e v a W1 Ea) as [B _].
    specialize (IH b W2 eq_refl). unfold min_record_len in IH. lia.
Qed.

(* concatenated encodings of a list of records *)
Fixpoint enc_records (rs : list (list (ie * value))) : option (list byte) :=
  match rs with
  | [] => Some []
  | r :: rest =>
      match enc_all r, enc_records rest with
      | Some a, Some b => Some (a ++ b)
      | _, _ => None
      end
  end.

Lemma decode_records_enc tpl : (0 < min_record_len tpl)%nat ->
  forall rs body fuel,
  Forall (fun r => for_template tpl r /\ wf_record r = true) rs ->
  enc_records rs = Some body -> (length rs < fuel)%nat ->
  decode_records fuel keep_all tpl body = Ok (map norm_record rs).
Proof.
  intros Hmin. induction rs as [|r rs IH]; intros body fuel F E Hf.
  - injection E as <-. destruct fuel as [|f]; [cbn in Hf; lia|].
    cbn [decode_records]. rewrite short_ltb. cbn [length].
    destruct (Nat.ltb_spec 0 (min_record_len tpl)); [reflexivity|lia].
  - inversion F as [|? ? [Ft W] Fr]; subst.
    cbn [enc_records] in E. destruct (enc_all r) as [a|] eqn:Ea; [|discriminate].
    destruct (enc_records rs) as [b|] eqn:Eb; [|discriminate].
    assert (body = a ++ b) as -> by congruence.
    destruct fuel as [|f]; [cbn in Hf; lia|]. cbn [length] in Hf.
    cbn [decode_records]. rewrite short_ltb.
    pose proof (min_record_len_le r a W Ea) as Hle. unfold for_template in Ft. rewrite Ft in Hle.
    destruct (Nat.ltb_spec (length (a ++ b)) (min_record_len tpl)) as [C|C]; [rewrite app_length in C; lia|].
    rewrite <- Ft at 1. rewrite (decode_fields_enc r a b W Ea). cbn [obind].
    rewrite (IH b f Fr eq_refl) by lia. reflexivity.
Qed.

Lemma enc_records_length_ge : forall tpl rs body, (0 < min_record_len tpl)%nat ->
  Forall (fun r => for_template tpl r /\ wf_record r = true) rs ->
  enc_records rs = Some body -> (length rs <= length body)%nat.
Proof.
  intros tpl rs. induction rs as [|r rs IH]; intros body Hmin F E.
  - cbn. lia.
  - inversion F as [|? ? [Ft W] Fr]; subst.
    cbn [enc_records] in E. destruct (enc_all r) as [a|] eqn:Ea; [|discriminate].
    destruct (enc_records rs) as [b|] eqn:Eb; [|discriminate].
    assert (body = a ++ b) as -> by congruence.
    pose proof (min_record_len_le r a W Ea) as Hle. unfold for_template in Ft. rewrite Ft in Hle.
    specialize (IH b Hmin Fr eq_refl). rewrite app_length. cbn [length]. lia.
Qed.

(* the whole data-set body: every record comes back, normalised, nothing more *)
Theorem decode_data_body_enc tpl rs body : (0 < min_record_len tpl)%nat ->
  Forall (fun r => for_template tpl r /\ wf_record r = true) rs ->
  enc_records rs = Some body ->
  decode_data_body keep_all tpl body = Ok (map norm_record rs).
Proof.
  intros Hmin F E. unfold decode_data_body.
  destruct (Nat.eqb_spec (min_record_len tpl) 0); [lia|].
  apply decode_records_enc; try assumption.
  pose proof (enc_records_length_ge tpl rs body Hmin F E). lia.
Qed.
