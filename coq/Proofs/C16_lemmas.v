(* C16: the per-case oracle holds on the model's own observation, for every operation sequence. *)
From Coq Require Import List Bool Arith NArith ZArith Lia String.
From Coq Require Import ZifyN ZifyNat ZifyBool.
From Coq.Strings Require Import Byte.
From Verif.Base Require Import Bytes Outcome Str.
From Verif.Model Require Import IE Codec Record SetB Msg.
From Verif.Proofs Require Import Bytes_lemmas Codec_lemmas SetB_lemmas.
From Verif.Driver Require Import Show SetShow C16drv.
Import ListNotations.
Local Open Scope N_scope.
Local Notation length := List.length.

Lemma rev'_eq {A} (l : list A) : rev' l = rev l.
Proof. unfold rev'. now rewrite rev_alt. Qed.

Lemma rev_repeat {A} (x : A) n : rev (repeat x n) = repeat x n.
Proof.
  induction n as [|n IH]; [reflexivity|]. cbn [repeat rev]. rewrite IH. symmetry. apply repeat_cons.
Qed.

Lemma step_n_run s o k : step_n s o k = run s (repeat o k).
Proof. revert s. induction k as [|k IH]; intros s; [reflexivity|]. cbn [step_n repeat]. now rewrite IH. Qed.

Lemma run_reset_repeat s k : (1 <= k)%nat -> run s (repeat OReset k) = reset_set.
Proof.
  intros H. destruct k as [|k]; [lia|]. clear H. revert s.
  induction k as [|k IH]; intros s; [reflexivity|].
  change (repeat OReset (S (S k))) with (OReset :: repeat OReset (S k)).
  change (run s (OReset :: repeat OReset (S k))) with (run (fst (step s OReset)) (repeat OReset (S k))).
  apply IH.
Qed.

Lemma sum_rlen_map rs : sum_rlen (map rsnap_of rs) = sum_rec_len rs.
Proof. induction rs as [|r t IH]; [reflexivity|]. cbn [map sum_rlen fold_right]. unfold sum_rlen in IH. now rewrite IH. Qed.

Lemma blen_concat_bufs rs :
  Forall (fun r => blen (buf_of r) = rec_len r) rs ->
  blen (List.concat (map buf_of rs)) = sum_rec_len rs.
Proof.
  unfold blen. induction rs as [|r t IH]; intros F; [reflexivity|].
  inversion F as [|? ? B F']; subst. cbn [map List.concat]. rewrite app_length.
  unfold sum_rec_len in *. cbn [fold_right]. specialize (IH F'). lia.
Qed.

Lemma Inv_recs_good s r : Inv s -> In r (s_recs s) -> good_rec r.
Proof.
  intros (_ & _ & HG) Hr. rewrite s_recs_rev in Hr. rewrite Forall_forall in HG. apply HG. now apply in_rev.
Qed.

(* clauses (a), (b) on the model's snapshot of any reachable set *)
Lemma snap_ok_model s a b c : Inv s -> snap_ok (snap_of s true a b c) = true.
Proof.
  intros HI. pose proof HI as (H4 & HL & HG).
  unfold snap_ok. apply andb_true_iff. split; [apply andb_true_iff; split|].
  - unfold snap_of. cbn [sn_len sn_recs]. rewrite sum_rlen_map, s_recs_rev, sum_rec_len_rev, <- HL.
    apply N.eqb_refl.
  - unfold snap_of. cbn [sn_recs]. apply forallb_forall. intros x Hx. apply in_map_iff in Hx as (r & <- & Hr).
    pose proof (good_rec_buffer r (Inv_recs_good s r HI Hr)) as G.
    unfold rsnap_of. cbn [rs_buf rs_rlen]. destruct (rec_buffer r); try exact eq_refl; try contradiction.
    apply N.eqb_eq. exact G.
  - destruct (forallb has_buf (sn_recs (snap_of s true a b c))) eqn:HB; [|reflexivity].
    assert (AB : all_buffers_ok s).
    { unfold all_buffers_ok. apply Forall_forall. intros r Hr.
      rewrite forallb_forall in HB. unfold snap_of in HB. cbn [sn_recs] in HB.
      specialize (HB (rsnap_of r) (in_map _ _ _ Hr)). unfold has_buf, rsnap_of in HB. cbn [rs_buf] in HB.
      destruct (rec_buffer r); try discriminate. eauto. }
    unfold snap_of. rewrite (create_msg_spec s a b c HI AB). cbn [sn_len sn_mres sn_mlen].
    change (16 + s_len s) with (msg_hdr_len + s_len s).
    destruct (max_msg <? msg_hdr_len + s_len s); [reflexivity|].
    apply andb_true_iff. split; [reflexivity|]. apply N.eqb_eq.
    assert (BL : blen (List.concat (map buf_of (s_recs s))) = sum_rec_len (s_recs s)).
    { apply blen_concat_bufs. apply Forall_forall. intros r Hr.
      pose proof (good_rec_buffer r (Inv_recs_good s r HI Hr)) as G.
      unfold all_buffers_ok in AB. rewrite Forall_forall in AB. destruct (AB r Hr) as [bb Eb].
      unfold buf_of. rewrite Eb in *. exact G. }
    unfold blen in *. rewrite !app_length, !length_be, H4.
    assert (Hs : sum_rec_len (s_recs s) = sum_rec_len (s_rrecs s)) by (rewrite s_recs_rev; apply sum_rec_len_rev).
    rewrite Hs in BL. unfold msg_hdr_len. lia.
Qed.

(* equal builder states up to the type look the same when the type is not shown *)
Lemma view_sim p s1 s2 a b c : sim p s1 s2 -> view s1 p a b c = view s2 p a b c.
Proof.
  destruct p.
  - intros S. now rewrite (sim_eq s1 s2 S).
  - destruct s1 as [h1 t1 r1 l1], s2 as [h2 t2 r2 l2]. unfold sim. cbn [s_hdr s_len s_rrecs s_type].
    intros (-> & -> & -> & _). reflexivity.
Qed.

Definition J (s : setb) (all since : list op) : Prop :=
  s = run new_set (rev' all) /\ (s = run new_set (rev' since) \/ s = run reset_set (rev' since)).

Lemma J_op s all since o n :
  J s all since ->
  let k := Nat.max n 1 in
  J (step_n s o k) (repeat o k ++ all) (match o with OReset => [] | _ => repeat o k ++ since end).
Proof.
  intros [Ja Js] k. assert (Hk : (1 <= k)%nat) by (unfold k; lia).
  assert (R : forall l, rev' (repeat o k ++ l) = rev' l ++ repeat o k).
  { intros l. rewrite !rev'_eq, rev_app_distr, rev_repeat. reflexivity. }
  split.
  - rewrite step_n_run, R, run_app, <- Ja. reflexivity.
  - destruct o; try (rewrite step_n_run, R, !run_app; destruct Js as [<-|<-]; auto).
    right. rewrite step_n_run. cbn [rev' rev_append run fold_left]. now apply run_reset_repeat.
Qed.

Lemma Forall_repeat {A} (P : A -> Prop) x n : P x -> Forall P (repeat x n).
Proof. intros H. induction n; cbn; constructor; auto. Qed.

Theorem c16_model_holds ds : forall s all since,
  J s all since -> C16_holds_on ds all since (c16_items ds s all since) = true.
Proof.
  induction ds as [|d r IH]; intros s all since HJ; [reflexivity|].
  destruct d as [o n|a b c].
  - cbn [c16_items C16_holds_on]. apply IH. now apply J_op.
  - cbn [c16_items C16_holds_on]. pose proof HJ as [Ja Js].
    assert (HI : Inv s) by (rewrite Ja; apply Inv_run, Inv_new).
    rewrite (snap_ok_model s a b c HI), (IH s all since HJ). cbn [andb]. rewrite andb_true_r.
    apply andb_true_iff. split.
    + destruct (wf_order false (rev' since)) eqn:W; [|reflexivity]. cbn [implb].
      assert (V : view (run new_set (rev' since)) (prep_state false (rev' since)) a b c
                  = view s (prep_state false (rev' since)) a b c).
      { destruct Js as [<-|Es]; [reflexivity|]. apply view_sim. rewrite Es.
        apply sim_run; [reflexivity|apply sim_new_reset|exact W]. }
      rewrite V. destruct (prep_state false (rev' since)); apply String.eqb_refl.
    + destruct (forms_hyp STemplate (rev' all)) eqn:Fh; [|reflexivity]. cbn [implb].
      assert (E : forall fm, form_ok fm = true ->
                  run new_set (reform (repeat fm (length all)) (rev' all)) = s).
      { intros fm Hfm. rewrite Ja. apply reform_run; [reflexivity|exact Fh|now apply Forall_repeat]. }
      unfold forced_forms. cbn [forallb]. rewrite !E by reflexivity.
      unfold view. rewrite !String.eqb_refl. reflexivity.
Qed.

Theorem C16_set_builder_lemma ds : C16_holds_on ds [] [] (c16_items ds new_set [] []) = true.
Proof. apply c16_model_holds. split; [reflexivity|left; reflexivity]. Qed.

(* the same facts stated directly on the builder model *)
Theorem record_buffers_lemma ops r :
  In r (s_recs (run new_set ops)) ->
  match rec_buffer r with Ok b => blen b = rec_len r | Panic => True | _ => False end.
Proof. intros H. apply good_rec_buffer. eapply Inv_recs_good; [apply Inv_run, Inv_new|exact H]. Qed.

Theorem serialize_length_lemma ops bs :
  serialize (run new_set ops) = Ok bs -> blen bs = s_len (run new_set ops).
Proof.
  set (s := run new_set ops). assert (HI : Inv s) by apply Inv_run, Inv_new.
  pose proof HI as (H4 & HL & _).
  unfold serialize.
  assert (G : forall rs, (forall r, In r rs -> good_rec r) ->
              forall b, concat_bufs rs = Ok b -> blen b = sum_rec_len rs).
  { induction rs as [|r t IHr]; intros Hg b.
    - intros [= <-]. reflexivity.
    - cbn [concat_bufs]. pose proof (good_rec_buffer r (Hg r (or_introl eq_refl))) as Gr.
      destruct (rec_buffer r) as [br| | |]; cbn [obind]; try discriminate.
      destruct (concat_bufs t) as [bt| | |] eqn:Et; cbn [obind]; try discriminate.
      intros [= <-]. specialize (IHr (fun x Hx => Hg x (or_intror Hx)) bt eq_refl).
      unfold blen in *. rewrite app_length. unfold sum_rec_len in *. cbn [fold_right]. lia. }
  destruct (concat_bufs (s_recs s)) as [body| | |] eqn:Eb; cbn [obind]; try discriminate.
  intros [= <-]. specialize (G (s_recs s) (fun r Hr => Inv_recs_good s r HI Hr) body Eb).
  unfold blen in *. rewrite app_length, H4. rewrite s_recs_rev, sum_rec_len_rev in G. lia.
Qed.

Theorem add_forms_lemma ops g :
  forms_hyp STemplate ops = true -> Forall (fun f => form_ok f = true) g ->
  run new_set (reform g ops) = run new_set ops.
Proof. intros H G. apply reform_run; [reflexivity|exact H|exact G]. Qed.

Theorem reset_like_new_lemma ops1 ops2 :
  wf_order false ops2 = true ->
  sim (prep_state false ops2) (run new_set ops2) (run new_set (ops1 ++ OReset :: ops2)).
Proof.
  intros W. rewrite run_app.
  change (run (run new_set ops1) (OReset :: ops2)) with (run (fst (step (run new_set ops1) OReset)) ops2).
  change (fst (step (run new_set ops1) OReset)) with reset_set.
  apply sim_run; [reflexivity|apply sim_new_reset|exact W].
Qed.

Theorem create_msg_lemma ops obs seq t :
  let s := run new_set ops in
  all_buffers_ok s ->
  create_msg s obs seq t =
  if max_msg <? msg_hdr_len + s_len s then Err ErrTooBig
  else Ok ((be 2 10 ++ be 2 (msg_hdr_len + s_len s) ++ be 4 t ++ be 4 seq ++ be 4 obs)
           ++ s_hdr s ++ List.concat (map buf_of (s_recs s))).
Proof. intros s H. apply create_msg_spec; [apply Inv_run, Inv_new|exact H]. Qed.
