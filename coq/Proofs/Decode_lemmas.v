(* Lemmas about Model/Decode.v: template table laws, totality (no Panic / OutOfFuel),
   refinement of the record loop to the specification splitter, template field specifiers
   against the wire, characterisation of decode_packet. *)
From Coq Require Import List Bool Arith NArith ZArith Lia String.
From Coq Require Import ZifyN ZifyNat ZifyBool.
From Coq.Strings Require Import Byte.
From Verif.Base Require Import Bytes Outcome.
From Verif.Gen Require Import Consts.
From Verif.Model Require Import IE Codec Decode.
From Verif.Proofs Require Import Bytes_lemmas Codec_lemmas.
Import ListNotations.
Local Open Scope N_scope.
Local Notation length := List.length.

(* ================= association maps ================= *)
Section Amap.
Context {A : Type}.
Implicit Types (l : amap A).

Lemma alookup_aset_same k v l : alookup k (aset k v l) = Some v.
Proof.
  induction l as [|[k' v'] r IH]; cbn [aset alookup].
  - now rewrite N.eqb_refl.
  - destruct (N.eqb_spec k' k); cbn [alookup].
    + now rewrite N.eqb_refl.
    + destruct (N.eqb_spec k' k); [contradiction|exact IH].
Qed.

Lemma alookup_aset_other k k2 v l : k2 <> k -> alookup k2 (aset k v l) = alookup k2 l.
Proof.
  intros NE. induction l as [|[k' v'] r IH]; cbn [aset alookup].
  - destruct (N.eqb_spec k k2); [congruence|reflexivity].
  - destruct (N.eqb_spec k' k) as [->|N1]; cbn [alookup].
    + destruct (N.eqb_spec k k2); [congruence|reflexivity].
    + destruct (N.eqb_spec k' k2); [reflexivity|exact IH].
Qed.

Lemma alookup_aremove_same k l : alookup k (aremove k l) = None.
Proof.
  unfold aremove. induction l as [|[k' v'] r IH]; cbn [filter alookup fst]; [reflexivity|].
  destruct (N.eqb_spec k' k); cbn [negb alookup]; [exact IH|].
  destruct (N.eqb_spec k' k); [contradiction|exact IH].
Qed.

Lemma alookup_aremove_other k k2 l : k2 <> k -> alookup k2 (aremove k l) = alookup k2 l.
Proof.
  intros NE. unfold aremove. induction l as [|[k' v'] r IH]; cbn [filter alookup fst]; [reflexivity|].
  destruct (N.eqb_spec k' k) as [->|N1]; cbn [negb alookup].
  - destruct (N.eqb_spec k k2); [congruence|exact IH].
  - destruct (N.eqb_spec k' k2); [reflexivity|exact IH].
Qed.

Lemma aremove_nil_lookup k k2 l : aremove k l = [] -> k2 <> k -> alookup k2 l = None.
Proof.
  intros E NE. rewrite <- (alookup_aremove_other k k2 l NE), E. reflexivity.
Qed.
End Amap.

(* ================= template table ================= *)
Lemma tm_lookup_add_same tm d i es : tm_lookup (tm_add tm d i es) d i = Some es.
Proof. unfold tm_lookup, tm_add. now rewrite !alookup_aset_same. Qed.

Lemma tm_lookup_add_other tm d i es d2 i2 :
  (d2, i2) <> (d, i) -> tm_lookup (tm_add tm d i es) d2 i2 = tm_lookup tm d2 i2.
Proof.
  intros NE. unfold tm_lookup, tm_add.
  destruct (N.eq_dec d2 d) as [->|Nd].
  - rewrite alookup_aset_same.
    assert (i2 <> i) by congruence.
    rewrite alookup_aset_other by assumption.
    destruct (alookup d tm); reflexivity.
  - now rewrite alookup_aset_other.
Qed.

Lemma tm_lookup_delete_same tm d i : tm_lookup (tm_delete tm d i) d i = None.
Proof.
  unfold tm_delete, tm_lookup.
  destruct (alookup d tm) as [inner|] eqn:Ed; [|now rewrite Ed].
  destruct (alookup i inner) eqn:Ei; [|now rewrite Ed].
  destruct (aremove i inner) as [|x r] eqn:Er.
  - now rewrite alookup_aremove_same.
  - rewrite alookup_aset_same, <- Er. apply alookup_aremove_same.
Qed.

Lemma tm_lookup_delete_other tm d i d2 i2 :
  (d2, i2) <> (d, i) -> tm_lookup (tm_delete tm d i) d2 i2 = tm_lookup tm d2 i2.
Proof.
  intros NE. unfold tm_delete, tm_lookup.
  destruct (alookup d tm) as [inner|] eqn:Ed; [|reflexivity].
  destruct (alookup i inner) eqn:Ei; [|reflexivity].
  destruct (aremove i inner) as [|x r] eqn:Er.
  - destruct (N.eq_dec d2 d) as [->|Nd].
    + rewrite alookup_aremove_same, Ed.
      assert (i2 <> i) by congruence.
      symmetry. now apply (aremove_nil_lookup i).
    + now rewrite alookup_aremove_other.
  - destruct (N.eq_dec d2 d) as [->|Nd].
    + rewrite alookup_aset_same, Ed, <- Er.
      assert (i2 <> i) by congruence. now apply alookup_aremove_other.
    + now rewrite alookup_aset_other.
Qed.

(* ================= buffer reads ================= *)
Lemma rd_ok k buf x r : rd k buf = Ok (x, r) ->
  (k <= length buf)%nat /\ x = bed (firstn k buf) /\ r = skipn k buf.
Proof.
  unfold rd. rewrite short_ltb. destruct (Nat.ltb_spec (length buf) k); [discriminate|].
  intros E. assert (x = bed (firstn k buf) /\ r = skipn k buf) as [-> ->] by (split; congruence).
  repeat split. lia.
Qed.

Lemma rd_cases k buf : rd k buf = Err ErrShort \/ exists x r, rd k buf = Ok (x, r).
Proof. unfold rd. destruct (short buf k); eauto. Qed.

Lemma skipn_skipn {A} a b (l : list A) : skipn a (skipn b l) = skipn (b + a) l.
Proof.
  revert l. induction b as [|b IH]; intros l; [reflexivity|].
  destruct l; cbn [skipn Nat.add]; [now destruct a|apply IH].
Qed.

(* ================= fields of a data record ================= *)
Lemma lead_ok k l : (k <= length l)%nat -> lead k l = Ok (firstn k l).
Proof. intros H. unfold lead. destruct (Nat.leb_spec k (length l)); [reflexivity|lia]. Qed.

Lemma decode_value_safe e d :
  ie_safe e = true -> length d = N.to_nat (ie_len e) ->
  decode_value e d <> Panic /\ decode_value e d <> OutOfFuel.
Proof.
  unfold ie_safe, decode_value. intros S L.
  destruct (ie_dt e); cbn [fixed_width] in S;
    try (split; discriminate);
    (rewrite lead_ok by lia; cbn [obind]; split; discriminate).
Qed.

Lemma decode_value_var_safe e d :
  ie_safe e = true -> ie_len e = var_len ->
  decode_value e d <> Panic /\ decode_value e d <> OutOfFuel.
Proof.
  unfold ie_safe, decode_value. intros S L. rewrite L in S.
  destruct (ie_dt e); cbn [fixed_width] in S; try (split; discriminate);
    (exfalso; unfold var_len in S; lia).
Qed.

Lemma field_len_cases buf :
  field_len buf = Err ErrShort \/ exists n r, field_len buf = Ok (n, r) /\ (length r < length buf)%nat.
Proof.
  unfold field_len. destruct buf as [|b r]; [now left|].
  destruct (b2n b <? 255).
  - right. exists (N.to_nat (b2n b)), r. split; [reflexivity|cbn [length]; lia].
  - destruct r as [|h [|l r']]; [now left|now left|].
    right. exists (N.to_nat (bed [h; l])), r'. split; [reflexivity|cbn [length]; lia].
Qed.

Lemma decode_field_safe e buf :
  ie_safe e = true -> decode_field e buf <> Panic /\ decode_field e buf <> OutOfFuel.
Proof.
  intros S. unfold decode_field.
  destruct (N.eqb_spec (ie_len e) var_len) as [V|V].
  - destruct (field_len_cases buf) as [->|(n & r & -> & _)]; cbn [obind]; [split; discriminate|].
    destruct (short r n); [split; discriminate|].
    destruct (decode_value_var_safe e (firstn n r) S V) as [P F].
    destruct (decode_value e (firstn n r)); cbn [obind]; split; congruence.
  - cbn [obind]. rewrite short_ltb.
    destruct (Nat.ltb_spec (length buf) (N.to_nat (ie_len e))); [split; discriminate|].
    assert (L : length (firstn (N.to_nat (ie_len e)) buf) = N.to_nat (ie_len e)) by (rewrite firstn_length; lia).
    destruct (decode_value_safe e _ S L) as [P F].
    destruct (decode_value e _); cbn [obind]; split; congruence.
Qed.

(* the specification splitter sees the same extent, and the field decodes from exactly it *)
Lemma decode_field_split e buf v rest :
  decode_field e buf = Ok (v, rest) ->
  exists p d, split_field e buf = Some (p, d, rest) /\ decode_value e d = Ok v.
Proof.
  unfold decode_field, split_field, take_ext.
  destruct (N.eqb (ie_len e) var_len).
  - unfold field_len. destruct buf as [|b r]; [discriminate|].
    destruct (b2n b <? 255).
    + cbn [obind]. destruct (short r _); [discriminate|].
      destruct (decode_value e _) as [v'| | |] eqn:D; try discriminate. cbn [obind].
      intros E. assert (v' = v /\ skipn (N.to_nat (b2n b)) r = rest) as [-> <-] by (split; congruence).
      eauto.
    + destruct r as [|h [|l r']]; try discriminate.
      cbn [obind]. destruct (short r' _); [discriminate|].
      destruct (decode_value e _) as [v'| | |] eqn:D; try discriminate. cbn [obind].
      intros E. assert (v' = v /\ skipn (N.to_nat (bed [h; l])) r' = rest) as [-> <-] by (split; congruence).
      eauto.
  - cbn [obind]. destruct (short buf _); [discriminate|].
    destruct (decode_value e _) as [v'| | |] eqn:D; try discriminate. cbn [obind].
    intros E. assert (v' = v /\ skipn (N.to_nat (ie_len e)) buf = rest) as [-> <-] by (split; congruence).
    eauto.
Qed.

(* and conversely *)
Lemma split_field_decode e buf p d rest v :
  split_field e buf = Some (p, d, rest) -> decode_value e d = Ok v ->
  decode_field e buf = Ok (v, rest).
Proof.
  unfold decode_field, split_field, take_ext.
  destruct (N.eqb (ie_len e) var_len).
  - unfold field_len. destruct buf as [|b r]; [discriminate|].
    destruct (b2n b <? 255).
    + cbn [obind]. destruct (short r _); [discriminate|].
      intros E D. assert (d = firstn (N.to_nat (b2n b)) r /\ rest = skipn (N.to_nat (b2n b)) r) as [-> ->] by (split; congruence).
      now rewrite D.
    + destruct r as [|h [|l r']]; try discriminate.
      cbn [obind]. destruct (short r' _); [discriminate|].
      intros E D. assert (d = firstn (N.to_nat (bed [h; l])) r' /\ rest = skipn (N.to_nat (bed [h; l])) r') as [-> ->] by (split; congruence).
      now rewrite D.
  - cbn [obind]. destruct (short buf _); [discriminate|].
    intros E D. assert (d = firstn (N.to_nat (ie_len e)) buf /\ rest = skipn (N.to_nat (ie_len e)) buf) as [-> ->] by (split; congruence).
    now rewrite D.
Qed.

(* the extent tiles the head of the buffer and has the declared / announced width *)
Lemma take_ext_spec pre n r p d rest :
  take_ext pre n r = Some (p, d, rest) -> p = pre /\ r = d ++ rest /\ length d = n.
Proof.
  unfold take_ext. rewrite short_ltb. destruct (Nat.ltb_spec (length r) n); [discriminate|].
  intros E. assert (p = pre /\ d = firstn n r /\ rest = skipn n r) as (-> & -> & ->) by (repeat split; congruence).
  repeat split.
  - symmetry. apply firstn_skipn.
  - rewrite firstn_length. lia.
Qed.

Lemma bed2_lt h l : bed [h; l] < 65536.
Proof. pose proof (bed_lt [h; l]) as H. cbn [length] in H. exact H. Qed.

Lemma split_field_tiles e buf p d rest :
  split_field e buf = Some (p, d, rest) ->
  buf = p ++ d ++ rest /\ width_ok (e, (p, d)) = true /\ (min_field_len e <= length p + length d)%nat.
Proof.
  unfold split_field, width_ok, min_field_len.
  destruct (N.eqb_spec (ie_len e) var_len) as [V|V].
  - destruct buf as [|b r]; [discriminate|].
    destruct (N.ltb_spec (b2n b) 255) as [B|B].
    + intros E. apply take_ext_spec in E as (-> & -> & L).
      repeat split; [|cbn [length]; lia].
      unfold announces. destruct (N.ltb_spec (b2n b) 255); [|lia]. cbn [andb].
      apply N.eqb_eq. lia.
    + destruct r as [|h [|l r']]; try discriminate.
      intros E. apply take_ext_spec in E as (-> & -> & L).
      repeat split; [|cbn [length]; lia].
      unfold announces. pose proof (b2n_lt b).
      assert (b2n b = 255) as -> by lia. cbn [N.eqb Pos.eqb andb].
      apply N.eqb_eq. pose proof (bed2_lt h l). lia.
  - intros E. apply take_ext_spec in E as (-> & -> & L).
    repeat split; [|cbn [length]; lia].
    apply N.eqb_eq. lia.
Qed.

(* ================= one record ================= *)
Lemma decode_fields_k_safe keep tpl : forall buf,
  forallb ie_safe tpl = true ->
  decode_fields_k keep tpl buf <> Panic /\ decode_fields_k keep tpl buf <> OutOfFuel.
Proof.
  induction tpl as [|e t IH]; intros buf S; cbn [decode_fields_k]; [split; discriminate|].
  cbn [forallb] in S. apply andb_true_iff in S as [S1 S2].
  destruct (decode_field_safe e buf S1) as [P F].
  destruct (decode_field e buf) as [[v rest]| | |]; cbn [obind]; try (split; congruence).
  destruct (IH rest S2) as [P2 F2].
  destruct (decode_fields_k keep t rest) as [[vs r2]| | |]; cbn [obind]; split; congruence.
Qed.

Lemma decode_fields_k_split keep tpl : forall buf vs rest,
  decode_fields_k keep tpl buf = Ok (vs, rest) ->
  exists xs, split_record tpl buf = Some (xs, rest) /\ values_of keep xs = Some vs.
Proof.
  induction tpl as [|e t IH]; intros buf vs rest; cbn [decode_fields_k split_record].
  - intros E. assert (vs = [] /\ rest = buf) as [-> ->] by (split; congruence).
    exists []. split; reflexivity.
  - destruct (decode_field e buf) as [[v r1]| | |] eqn:D; try discriminate. cbn [obind].
    destruct (decode_fields_k keep t r1) as [[vs1 r2]| | |] eqn:D2; try discriminate. cbn [obind].
    intros E. assert (vs = (if keep e then (e, v) :: vs1 else vs1) /\ rest = r2) as [-> ->] by (split; congruence).
    destruct (decode_field_split e buf v r1 D) as (p & d & Sf & Dv).
    destruct (IH r1 vs1 r2 D2) as (xs & Sr & Vs).
    rewrite Sf, Sr. exists ((e, (p, d)) :: xs). split; [reflexivity|].
    cbn [values_of]. now rewrite Dv, Vs.
Qed.

Lemma split_record_decode keep tpl : forall buf xs rest vs,
  split_record tpl buf = Some (xs, rest) -> values_of keep xs = Some vs ->
  decode_fields_k keep tpl buf = Ok (vs, rest).
Proof.
  induction tpl as [|e t IH]; intros buf xs rest vs; cbn [decode_fields_k split_record].
  - intros E. assert (xs = [] /\ rest = buf) as [-> ->] by (split; congruence).
    cbn [values_of]. intros V. now assert (vs = []) as -> by congruence.
  - destruct (split_field e buf) as [[[p d] r1]|] eqn:Sf; [|discriminate].
    destruct (split_record t r1) as [[xs1 r2]|] eqn:Sr; [|discriminate].
    intros E. assert (xs = (e, (p, d)) :: xs1 /\ rest = r2) as [-> ->] by (split; congruence).
    cbn [values_of]. destruct (decode_value e d) as [v| | |] eqn:Dv; try discriminate.
    destruct (values_of keep xs1) as [vs1|] eqn:Vs; [|discriminate].
    intros V. rewrite (split_field_decode e buf p d r1 v Sf Dv). cbn [obind].
    rewrite (IH r1 xs1 r2 vs1 Sr Vs). cbn [obind]. congruence.
Qed.

Definition record_ok (tpl : list ie) (xs : list (ie * (list byte * list byte))) : Prop :=
  map fst xs = tpl /\ forallb width_ok xs = true.

Lemma split_record_tiles tpl : forall buf xs rest,
  split_record tpl buf = Some (xs, rest) ->
  buf = raw_of_record xs ++ rest /\ record_ok tpl xs /\
  (min_record_len tpl <= length (raw_of_record xs))%nat.
Proof.
  unfold record_ok, raw_of_record.
  induction tpl as [|e t IH]; intros buf xs rest; cbn [split_record].
  - intros E. assert (xs = [] /\ rest = buf) as [-> ->] by (split; congruence).
    cbn. repeat split; lia.
  - destruct (split_field e buf) as [[[p d] r1]|] eqn:Sf; [|discriminate].
    destruct (split_record t r1) as [[xs1 r2]|] eqn:Sr; [|discriminate].
    intros E. assert (xs = (e, (p, d)) :: xs1 /\ rest = r2) as [-> ->] by (split; congruence).
    destruct (split_field_tiles e buf p d r1 Sf) as (Hb & Hw & Hm).
    destruct (IH r1 xs1 r2 Sr) as (Hb2 & [Hm2 Hw2] & Hl).
    cbn [map List.concat fst forallb min_record_len fold_right].
    unfold raw_of_field at 1. cbn [fst snd].
    repeat split.
    + rewrite Hb, Hb2 at 1. now rewrite <- !app_assoc.
    + now rewrite Hm2.
    + now rewrite Hw, Hw2.
    + unfold raw_of_field at 1. cbn [fst snd]. rewrite !app_length. fold (min_record_len t). lia.
Qed.

(* ================= the record loop ================= *)
Lemma decode_records_safe keep tpl : forall fuel buf,
  forallb ie_safe tpl = true -> decode_records fuel keep tpl buf <> Panic.
Proof.
  induction fuel as [|f IH]; intros buf S; cbn [decode_records]; [discriminate|].
  destruct (short buf (min_record_len tpl)); [discriminate|].
  destruct (decode_fields_k_safe keep tpl buf S) as [P F].
  destruct (decode_fields_k keep tpl buf) as [[vs rest]| | |]; cbn [obind]; try congruence.
  specialize (IH rest S).
  destruct (decode_records f keep tpl rest); cbn [obind]; congruence.
Qed.

Lemma decode_records_fuel keep tpl : forall fuel buf,
  forallb ie_safe tpl = true -> (0 < min_record_len tpl)%nat -> (length buf < fuel)%nat ->
  decode_records fuel keep tpl buf <> OutOfFuel.
Proof.
  induction fuel as [|f IH]; intros buf S M L; [lia|]. cbn [decode_records].
  destruct (short buf (min_record_len tpl)); [discriminate|].
  destruct (decode_fields_k_safe keep tpl buf S) as [P F].
  destruct (decode_fields_k keep tpl buf) as [[vs rest]| | |] eqn:D; cbn [obind]; try congruence.
  destruct (decode_fields_k_split keep tpl buf vs rest D) as (xs & Sr & _).
  destruct (split_record_tiles tpl buf xs rest Sr) as (Hb & _ & Hl).
  assert (length rest < f)%nat.
  { apply (f_equal (@List.length byte)) in Hb. rewrite app_length in Hb. lia. }
  specialize (IH rest S M H).
  destruct (decode_records f keep tpl rest); cbn [obind]; congruence.
Qed.

Lemma decode_records_split keep tpl : forall fuel buf rs,
  decode_records fuel keep tpl buf = Ok rs ->
  exists xss pad, split_body fuel tpl buf = Some (xss, pad) /\ values_all keep xss = Some rs.
Proof.
  induction fuel as [|f IH]; intros buf rs; cbn [decode_records split_body]; [discriminate|].
  destruct (short buf (min_record_len tpl)).
  - intros E. assert (rs = []) as -> by congruence. exists [], buf. split; reflexivity.
  - destruct (decode_fields_k keep tpl buf) as [[vs rest]| | |] eqn:D; try discriminate. cbn [obind].
    destruct (decode_records f keep tpl rest) as [rs1| | |] eqn:D2; try discriminate. cbn [obind].
    intros E. assert (rs = vs :: rs1) as -> by congruence.
    destruct (decode_fields_k_split keep tpl buf vs rest D) as (xs & Sr & Vs).
    destruct (IH rest rs1 D2) as (xss & pad & Sb & Va).
    rewrite Sr, Sb. exists (xs :: xss), pad. split; [reflexivity|].
    cbn [values_all]. now rewrite Vs, Va.
Qed.

Lemma split_body_decode keep tpl : forall fuel buf xss pad rs,
  split_body fuel tpl buf = Some (xss, pad) -> values_all keep xss = Some rs ->
  decode_records fuel keep tpl buf = Ok rs.
Proof.
  induction fuel as [|f IH]; intros buf xss pad rs; cbn [decode_records split_body]; [discriminate|].
  destruct (short buf (min_record_len tpl)).
  - intros E. assert (xss = []) as -> by congruence. cbn [values_all]. congruence.
  - destruct (split_record tpl buf) as [[xs rest]|] eqn:Sr; [|discriminate].
    destruct (split_body f tpl rest) as [[xss1 pad1]|] eqn:Sb; [|discriminate].
    intros E. assert (xss = xs :: xss1) as -> by congruence.
    cbn [values_all]. destruct (values_of keep xs) as [vs|] eqn:Vs; [|discriminate].
    destruct (values_all keep xss1) as [rs1|] eqn:Va; [|discriminate].
    intros V. rewrite (split_record_decode keep tpl buf xs rest vs Sr Vs). cbn [obind].
    rewrite (IH rest xss1 pad1 rs1 Sb Va). cbn [obind]. congruence.
Qed.

Lemma values_all_length keep xss : forall rs, values_all keep xss = Some rs -> length rs = length xss.
Proof.
  induction xss as [|xs r IH]; intros rs; cbn [values_all].
  - intros E. now assert (rs = []) as -> by congruence.
  - destruct (values_of keep xs); [|discriminate]. destruct (values_all keep r) as [rs1|]; [|discriminate].
    intros E. assert (rs = l :: rs1) as -> by congruence. cbn [length]. now rewrite (IH rs1 eq_refl).
Qed.

(* the set body is tiled exactly: records, then padding shorter than the shortest record *)
Lemma split_body_tiles tpl : forall fuel buf xss pad,
  split_body fuel tpl buf = Some (xss, pad) ->
  buf = List.concat (map raw_of_record xss) ++ pad /\
  (length pad < min_record_len tpl)%nat /\
  Forall (record_ok tpl) xss /\
  (length xss * min_record_len tpl <= length buf)%nat.
Proof.
  induction fuel as [|f IH]; intros buf xss pad; cbn [split_body]; [discriminate|].
  rewrite short_ltb. destruct (Nat.ltb_spec (length buf) (min_record_len tpl)) as [Sh|Sh].
  - intros E. assert (xss = [] /\ pad = buf) as [-> ->] by (split; congruence).
    cbn [map List.concat app length]. repeat split; [assumption|constructor|lia].
  - destruct (split_record tpl buf) as [[xs rest]|] eqn:Sr; [|discriminate].
    destruct (split_body f tpl rest) as [[xss1 pad1]|] eqn:Sb; [|discriminate].
    intros E. assert (xss = xs :: xss1 /\ pad = pad1) as [-> ->] by (split; congruence).
    destruct (split_record_tiles tpl buf xs rest Sr) as (Hb & Hok & Hl).
    destruct (IH rest xss1 pad1 Sb) as (Hb2 & Hp & Hall & Hn).
    cbn [map List.concat length]. repeat split.
    + rewrite Hb, Hb2 at 1. now rewrite <- app_assoc.
    + assumption.
    + now constructor.
    + apply (f_equal (@List.length byte)) in Hb. rewrite app_length in Hb. lia.
Qed.

(* ================= decode_data_body ================= *)
Lemma decode_data_body_total keep tpl buf :
  forallb ie_safe tpl = true ->
  decode_data_body keep tpl buf <> Panic /\ decode_data_body keep tpl buf <> OutOfFuel.
Proof.
  intros S. unfold decode_data_body.
  destruct (Nat.eqb_spec (min_record_len tpl) 0) as [Z|NZ].
  - destruct buf; split; discriminate.
  - split; [now apply decode_records_safe|apply decode_records_fuel; [assumption|lia|lia]].
Qed.

Lemma decode_data_body_spec keep tpl buf rs :
  decode_data_body keep tpl buf = Ok rs -> spec_data keep tpl buf = Some rs.
Proof.
  unfold decode_data_body, spec_data.
  destruct (Nat.eqb (min_record_len tpl) 0).
  - destruct buf; [congruence|discriminate].
  - intros D. destruct (decode_records_split keep tpl _ buf rs D) as (xss & pad & Sb & Va).
    now rewrite Sb.
Qed.

Lemma spec_data_decode keep tpl buf rs :
  spec_data keep tpl buf = Some rs -> decode_data_body keep tpl buf = Ok rs.
Proof.
  unfold decode_data_body, spec_data.
  destruct (Nat.eqb (min_record_len tpl) 0).
  - destruct buf; [congruence|discriminate].
  - destruct (split_body _ tpl buf) as [[xss pad]|] eqn:Sb; [|discriminate].
    intros Va. now apply (split_body_decode keep tpl _ buf xss pad rs).
Qed.

(* exactness of a decoded data set body, in terms of field extents *)
Lemma decode_data_body_exact keep tpl buf rs :
  decode_data_body keep tpl buf = Ok rs ->
  exists xss pad,
    buf = List.concat (map raw_of_record xss) ++ pad /\
    (pad = [] \/ (length pad < min_record_len tpl)%nat) /\
    Forall (record_ok tpl) xss /\
    values_all keep xss = Some rs /\
    (length rs <= length buf)%nat.
Proof.
  unfold decode_data_body.
  destruct (Nat.eqb_spec (min_record_len tpl) 0) as [Z|NZ].
  - destruct buf; [|discriminate]. intros E. assert (rs = []) as -> by congruence.
    exists [], []. cbn. repeat split; auto.
  - intros D. destruct (decode_records_split keep tpl _ buf rs D) as (xss & pad & Sb & Va).
    destruct (split_body_tiles tpl _ buf xss pad Sb) as (Hb & Hp & Hall & Hn).
    exists xss, pad. repeat split; auto.
    rewrite (values_all_length keep xss rs Va). nia.
Qed.

(* ================= template field specifiers ================= *)
Lemma bed2 a b : bed [a; b] = b2n a * 256 + b2n b.
Proof.
  unfold bed. cbn [length]. change (N.of_nat 1) with 1. change (N.of_nat 0) with 0.
  rewrite N.pow_1_r, N.pow_0_r. lia.
Qed.

Lemma resolve_spec m reg id ent wl e :
  resolve m reg id ent wl = Ok e ->
  e = spec_elem reg (id, ent, wl) /\ (m = Strict -> spec_known reg (id, ent, wl) = true).
Proof.
  unfold resolve, spec_elem, spec_known. destruct (reg_lookup reg id ent) as [x|].
  - intros E. assert (e = x) as -> by congruence. split; [reflexivity|reflexivity].
  - destruct m; try discriminate; intros E;
      (assert (e = mkIE "" id OctetArray ent wl) as -> by congruence); split; try reflexivity; discriminate.
Qed.

Lemma resolve_total m reg id ent wl :
  resolve m reg id ent wl <> Panic /\ resolve m reg id ent wl <> OutOfFuel.
Proof. unfold resolve. destruct (reg_lookup reg id ent); [|destruct m]; split; discriminate. Qed.

Lemma zero_value_total d : zero_value d <> Panic /\ zero_value d <> OutOfFuel.
Proof. destruct d; split; discriminate. Qed.

Lemma spec_elem_key reg id ent wl :
  ie_id (spec_elem reg (id, ent, wl)) = id /\ ie_ent (spec_elem reg (id, ent, wl)) = ent.
Proof.
  unfold spec_elem, reg_lookup.
  destruct (find _ reg) as [x|] eqn:F; [|split; reflexivity].
  apply find_some in F as [_ F]. apply andb_true_iff in F as [F1 F2].
  apply N.eqb_eq in F1, F2. now split.
Qed.

Lemma spec_elem_safe reg w : reg_safe reg = true -> ie_safe (spec_elem reg w) = true.
Proof.
  intros S. destruct w as [[id ent] wl]. unfold spec_elem, reg_lookup.
  destruct (find _ reg) as [x|] eqn:F; [|reflexivity].
  apply find_some in F as [I _]. unfold reg_safe in S. rewrite forallb_forall in S. now apply S.
Qed.

Lemma short_0 buf : short buf 0 = false.
Proof. now destruct buf. Qed.

(* one field specifier: the model reads what wire_fields reads *)
Lemma decode_tfield_wire m reg buf e rest :
  decode_tfield m reg buf = Ok (e, rest) ->
  exists w, (forall n, wire_fields (S n) buf = option_map (cons w) (wire_fields n rest)) /\
            e = spec_elem reg w /\ (m = Strict -> spec_known reg w = true) /\ zero_ok e = true.
Proof.
  unfold decode_tfield, rd.
  destruct buf as [|a [|b [|c [|d r]]]]; cbn [short firstn skipn obind]; rewrite ?short_0; cbn [obind]; try discriminate.
  pose proof (bed2 a b) as B. pose proof (b2n_lt b) as Bb.
  destruct (N.ltb_spec (bed [a; b]) 32768) as [L|L].
  - destruct (resolve m reg (bed [a; b]) 0 (bed [c; d])) as [x| | |] eqn:R; try discriminate. cbn [obind].
    destruct (zero_value (ie_dt x)) as [z| | |] eqn:Z; try discriminate. cbn [obind].
    intros E. assert (x = e /\ r = rest) as [-> ->] by (split; congruence).
    destruct (resolve_spec _ _ _ _ _ _ R) as [He Hs].
    exists (bed [a; b], 0, bed [c; d]). repeat split; try assumption.
    + intros n. cbn [wire_fields]. destruct (N.ltb_spec (b2n a) 128); [reflexivity|lia].
    + unfold zero_ok. now rewrite Z.
  - destruct r as [|e1 [|e2 [|e3 [|e4 r']]]]; cbn [short firstn skipn obind]; rewrite ?short_0; cbn [obind]; try discriminate.
    destruct (resolve m reg (bed [a; b] - 32768) (bed [e1; e2; e3; e4]) (bed [c; d])) as [x| | |] eqn:R; try discriminate. cbn [obind].
    destruct (zero_value (ie_dt x)) as [z| | |] eqn:Z; try discriminate. cbn [obind].
    intros E. assert (x = e /\ r' = rest) as [-> ->] by (split; congruence).
    destruct (resolve_spec _ _ _ _ _ _ R) as [He Hs].
    exists (bed [a; b] - 32768, bed [e1; e2; e3; e4], bed [c; d]). repeat split; try assumption.
    + intros n. cbn [wire_fields]. destruct (N.ltb_spec (b2n a) 128); [lia|reflexivity].
    + unfold zero_ok. now rewrite Z.
Qed.

Lemma rd_total k buf : rd k buf <> Panic /\ rd k buf <> OutOfFuel.
Proof. unfold rd. destruct (short buf k); split; discriminate. Qed.

Definition tot {A} (o : outcome A) : Prop := o <> Panic /\ o <> OutOfFuel.
Lemma tot_bind {A B} (o : outcome A) (f : A -> outcome B) :
  tot o -> (forall a, tot (f a)) -> tot (obind o f).
Proof. intros [P F] H. destruct o; cbn [obind]; [apply H|split; discriminate|congruence|congruence]. Qed.
Lemma tot_ok {A} (a : A) : tot (Ok a).
Proof. split; discriminate. Qed.

Lemma decode_tfield_total m reg buf :
  decode_tfield m reg buf <> Panic /\ decode_tfield m reg buf <> OutOfFuel.
Proof.
  change (tot (decode_tfield m reg buf)). unfold decode_tfield.
  apply tot_bind; [apply rd_total|intros [idw b1]].
  apply tot_bind; [apply rd_total|intros [wl b2]].
  apply tot_bind.
  - destruct (idw <? 32768).
    + apply tot_bind; [apply resolve_total|intros e; apply tot_ok].
    + apply tot_bind; [apply rd_total|intros [ent b3]].
      apply tot_bind; [apply resolve_total|intros e; apply tot_ok].
  - intros [e b3]. apply tot_bind; [apply zero_value_total|intros _; apply tot_ok].
Qed.

Lemma decode_tfields_total m reg n : forall buf,
  decode_tfields m reg n buf <> Panic /\ decode_tfields m reg n buf <> OutOfFuel.
Proof.
  induction n as [|n IH]; intros buf; cbn [decode_tfields]; [split; discriminate|].
  destruct (decode_tfield_total m reg buf) as [P F].
  destruct (decode_tfield m reg buf) as [[e r]| | |]; cbn [obind]; try (split; congruence).
  destruct (IH r) as [P2 F2].
  destruct (decode_tfields m reg n r) as [[es r']| | |]; cbn [obind]; split; congruence.
Qed.

Lemma decode_tfields_wire m reg n : forall buf es rest,
  decode_tfields m reg n buf = Ok (es, rest) ->
  exists wf, wire_fields n buf = Some wf /\ es = map (spec_elem reg) wf /\
             (m = Strict -> forallb (spec_known reg) wf = true) /\ forallb zero_ok es = true.
Proof.
  induction n as [|n IH]; intros buf es rest; cbn [decode_tfields].
  - intros E. assert (es = []) as -> by congruence. exists []. repeat split.
  - destruct (decode_tfield m reg buf) as [[e r]| | |] eqn:D; try discriminate. cbn [obind].
    destruct (decode_tfields m reg n r) as [[es1 r']| | |] eqn:D2; try discriminate. cbn [obind].
    intros E. assert (es = e :: es1) as -> by congruence.
    destruct (decode_tfield_wire m reg buf e r D) as (w & Hw & He & Hs & Hz).
    destruct (IH r es1 r' D2) as (wf & Hwf & Hes & Hss & Hzz).
    exists (w :: wf). rewrite Hw, Hwf. cbn [option_map map forallb]. repeat split.
    + now rewrite He, Hes.
    + intros S. now rewrite (Hs S), (Hss S).
    + now rewrite Hz, Hzz.
Qed.

(* ================= the packet ================= *)
Lemma read_header_total bytes : read_header bytes <> Panic /\ read_header bytes <> OutOfFuel.
Proof.
  change (tot (read_header bytes)). unfold read_header.
  repeat (apply tot_bind; [apply rd_total|intros [? ?]]). apply tot_ok.
Qed.

Lemma read_header_ok bytes v h sid sl rest :
  read_header bytes = Ok (v, h, sid, sl, rest) ->
  short bytes 20 = false /\ v = bed (firstn 2 bytes) /\ h = wire_hdr bytes /\
  sid = wire_setid bytes /\ rest = skipn 20 bytes.
Proof.
  unfold read_header.
  destruct (rd 2 bytes) as [[x1 b1]| | |] eqn:R1; try discriminate; cbn [obind].
  destruct (rd 2 b1) as [[x2 b2]| | |] eqn:R2; try discriminate; cbn [obind].
  destruct (rd 4 b2) as [[x3 b3]| | |] eqn:R3; try discriminate; cbn [obind].
  destruct (rd 4 b3) as [[x4 b4]| | |] eqn:R4; try discriminate; cbn [obind].
  destruct (rd 4 b4) as [[x5 b5]| | |] eqn:R5; try discriminate; cbn [obind].
  destruct (rd 2 b5) as [[x6 b6]| | |] eqn:R6; try discriminate; cbn [obind].
  destruct (rd 2 b6) as [[x7 b7]| | |] eqn:R7; try discriminate; cbn [obind].
  apply rd_ok in R1 as (L1 & -> & ->). apply rd_ok in R2 as (L2 & -> & ->).
  apply rd_ok in R3 as (L3 & -> & ->). apply rd_ok in R4 as (L4 & -> & ->).
  apply rd_ok in R5 as (L5 & -> & ->). apply rd_ok in R6 as (L6 & -> & ->).
  apply rd_ok in R7 as (L7 & -> & ->).
  rewrite !skipn_skipn in *. cbn [Nat.add] in *.
  intros E.
  assert (v = bed (firstn 2 bytes) /\
          h = mkHdr (bed (firstn 2 (skipn 2 bytes))) (bed (firstn 4 (skipn 4 bytes)))
                    (bed (firstn 4 (skipn 8 bytes))) (bed (firstn 4 (skipn 12 bytes))) /\
          sid = bed (firstn 2 (skipn 16 bytes)) /\ rest = skipn 20 bytes) as (-> & -> & -> & ->)
    by (repeat split; congruence).
  repeat split.
  rewrite short_ltb. rewrite skipn_length in L7. destruct (Nat.ltb_spec (length bytes) 20); [lia|reflexivity].
Qed.

Definition tm_safe (tm : tmap) : Prop :=
  forall d i tpl, tm_lookup tm d i = Some tpl -> forallb ie_safe tpl = true.

Lemma tm_safe_nil : tm_safe [].
Proof. intros d i tpl. discriminate. Qed.

Lemma alookup_forallb {A} (Q : A -> bool) k (l : amap A) v :
  alookup k l = Some v -> forallb (fun p => Q (snd p)) l = true -> Q v = true.
Proof.
  induction l as [|[k' v'] r IH]; cbn [alookup forallb snd]; [discriminate|].
  intros E H. apply andb_true_iff in H as [H1 H2].
  destruct (N.eqb k' k); [congruence|auto].
Qed.

Lemma tmap_safe_tm_safe tm : tmap_safe tm = true -> tm_safe tm.
Proof.
  intros S d i tpl L. unfold tm_lookup in L.
  destruct (alookup d tm) as [inner|] eqn:Ed; [|discriminate].
  unfold tmap_safe in S.
  pose proof (alookup_forallb (fun inner => forallb (fun t => forallb ie_safe (snd t)) inner) d tm inner Ed S) as S1.
  cbn beta in S1.
  exact (alookup_forallb (fun t => forallb ie_safe t) i inner tpl L S1).
Qed.

Lemma decode_template_set_total m reg tm h buf :
  fst (decode_template_set m reg tm h buf) <> Panic /\ fst (decode_template_set m reg tm h buf) <> OutOfFuel.
Proof.
  unfold decode_template_set.
  destruct (rd_total 2 buf) as [P1 F1].
  destruct (rd 2 buf) as [[tid b1]| | |]; cbn [obind fst]; try (split; congruence).
  destruct (rd_total 2 b1) as [P2 F2].
  destruct (rd 2 b1) as [[cnt b2]| | |]; cbn [obind fst]; try (split; congruence).
  destruct (decode_tfields_total m reg (N.to_nat cnt) b2) as [P3 F3].
  destruct (decode_tfields m reg (N.to_nat cnt) b2) as [[es r]| | |]; cbn [fst]; split; congruence.
Qed.

Lemma decode_packet_total m reg tm bytes :
  tm_safe tm ->
  fst (decode_packet m reg tm bytes) <> Panic /\ fst (decode_packet m reg tm bytes) <> OutOfFuel.
Proof.
  intros S. unfold decode_packet.
  destruct (read_header_total bytes) as [P F].
  destruct (read_header bytes) as [[[[[v h] sid] sl] rest]| | |]; cbn [fst]; try (split; congruence).
  destruct (negb (N.eqb v 10)); [cbn [fst]; split; discriminate|].
  destruct (N.eqb sid c_entities_TemplateSetID); [apply decode_template_set_total|].
  cbn [fst]. unfold decode_data_set.
  destruct (tm_lookup tm (h_obs h) sid) as [tpl|] eqn:L; [|split; discriminate].
  destruct (decode_data_body_total (keep_of m) tpl rest (S _ _ _ L)) as [P2 F2].
  destruct (decode_data_body (keep_of m) tpl rest); cbn [obind]; split; congruence.
Qed.

Lemma hdr_ok_of bytes v : short bytes 20 = false -> v = bed (firstn 2 bytes) -> N.eqb v 10 = true -> hdr_ok bytes = true.
Proof. intros S -> E. unfold hdr_ok. now rewrite S, E. Qed.

(* a template message is exactly what the wire says *)
Lemma decode_packet_template m reg tm bytes h tid es tm' :
  decode_packet m reg tm bytes = (Ok (TemplateMsg h tid es), tm') ->
  spec_template m reg bytes = Some (h, tid, es) /\ tm' = tm_add tm (h_obs h) tid es.
Proof.
  unfold decode_packet.
  destruct (read_header bytes) as [[[[[v h0] sid] sl] rest]| | |] eqn:RH; try discriminate.
  apply read_header_ok in RH as (Sh & Hv & -> & -> & ->).
  destruct (N.eqb v 10) eqn:V; cbn [negb]; [|discriminate].
  destruct (N.eqb (wire_setid bytes) c_entities_TemplateSetID) eqn:T.
  2:{ unfold decode_data_set. destruct (tm_lookup tm _ _); [|discriminate].
      destruct (decode_data_body _ _ _); cbn [obind]; discriminate. }
  unfold decode_template_set.
  destruct (rd 2 (skipn 20 bytes)) as [[tid0 b1]| | |] eqn:R1; try discriminate; cbn [obind].
  destruct (rd 2 b1) as [[cnt b2]| | |] eqn:R2; try discriminate; cbn [obind].
  apply rd_ok in R1 as (L1 & -> & ->). apply rd_ok in R2 as (L2 & -> & ->).
  rewrite !skipn_skipn in *. cbn [Nat.add] in *.
  destruct (decode_tfields m reg _ (skipn 24 bytes)) as [[es0 r]| | |] eqn:D; try discriminate.
  intros E.
  assert (wire_hdr bytes = h /\ bed (firstn 2 (skipn 20 bytes)) = tid /\ es0 = es /\
          tm' = tm_add tm (h_obs (wire_hdr bytes)) (bed (firstn 2 (skipn 20 bytes))) es0)
    as (<- & <- & -> & ->) by (repeat split; congruence).
  split; [|reflexivity].
  destruct (decode_tfields_wire m reg _ _ es r D) as (wf & Hwf & Hes & Hs & Hz).
  unfold spec_template. rewrite (hdr_ok_of bytes v Sh Hv V), T.
  assert (S24 : short bytes 24 = false).
  { rewrite short_ltb. rewrite skipn_length in L2. destruct (Nat.ltb_spec (length bytes) 24); [lia|reflexivity]. }
  rewrite S24. cbn [negb andb]. unfold wire_count. rewrite Hwf. rewrite <- Hes, Hz.
  destruct m; cbn [andb]; try reflexivity. now rewrite Hs.
Qed.

(* a data message is exactly what the template in force defines for the set body *)
Lemma decode_packet_data m reg tm bytes h tid rs tm' :
  decode_packet m reg tm bytes = (Ok (DataMsg h tid rs), tm') ->
  spec_packet_data m tm bytes = Some (h, tid, rs) /\ tm' = tm.
Proof.
  unfold decode_packet.
  destruct (read_header bytes) as [[[[[v h0] sid] sl] rest]| | |] eqn:RH; try discriminate.
  apply read_header_ok in RH as (Sh & Hv & -> & -> & ->).
  destruct (N.eqb v 10) eqn:V; cbn [negb]; [|discriminate].
  destruct (N.eqb (wire_setid bytes) c_entities_TemplateSetID) eqn:T.
  { unfold decode_template_set.
    destruct (rd 2 (skipn 20 bytes)) as [[tid0 b1]| | |]; try discriminate; cbn [obind].
    destruct (rd 2 b1) as [[cnt b2]| | |]; try discriminate; cbn [obind].
    destruct (decode_tfields m reg _ b2) as [[es0 r]| | |]; discriminate. }
  unfold decode_data_set. change (h_obs (wire_hdr bytes)) with (wire_obs bytes).
  destruct (tm_lookup tm (wire_obs bytes) (wire_setid bytes)) as [tpl|] eqn:L; [|discriminate].
  destruct (decode_data_body (keep_of m) tpl (skipn 20 bytes)) as [rs0| | |] eqn:D; try discriminate.
  cbn [obind]. intros E.
  assert (wire_hdr bytes = h /\ wire_setid bytes = tid /\ rs0 = rs /\ tm' = tm) as (<- & <- & -> & ->)
    by (repeat split; congruence).
  split; [|reflexivity].
  unfold spec_packet_data, spec_packet_data_with. rewrite (hdr_ok_of bytes v Sh Hv V), T, L. cbn [negb andb].
  unfold wire_body. now rewrite (decode_data_body_spec _ _ _ _ D).
Qed.

(* the template table only ever changes at the key on the wire, and stays safe *)
Lemma decode_packet_tmap m reg tm bytes :
  snd (decode_packet m reg tm bytes) = tm \/
  (exists es, fst (decode_packet m reg tm bytes) = Ok (TemplateMsg (wire_hdr bytes) (wire_tid bytes) es) /\
              snd (decode_packet m reg tm bytes) = tm_add tm (wire_obs bytes) (wire_tid bytes) es) \/
  ((exists k, fst (decode_packet m reg tm bytes) = Err k) /\
   snd (decode_packet m reg tm bytes) = tm_delete tm (wire_obs bytes) (wire_tid bytes)).
Proof.
  unfold decode_packet.
  destruct (read_header bytes) as [[[[[v h0] sid] sl] rest]| | |] eqn:RH; try (left; reflexivity).
  apply read_header_ok in RH as (Sh & Hv & -> & -> & ->).
  destruct (negb (N.eqb v 10)); [left; reflexivity|].
  destruct (N.eqb (wire_setid bytes) c_entities_TemplateSetID); [|left; reflexivity].
  unfold decode_template_set.
  destruct (rd 2 (skipn 20 bytes)) as [[tid0 b1]| | |] eqn:R1; try (left; reflexivity); cbn [obind].
  destruct (rd 2 b1) as [[cnt b2]| | |] eqn:R2; try (left; reflexivity); cbn [obind].
  apply rd_ok in R1 as (L1 & -> & ->).
  destruct (decode_tfields m reg _ b2) as [[es0 r]| | |]; cbn [fst snd].
  - right. left. exists es0. split; reflexivity.
  - right. right. split; [eauto|reflexivity].
  - left; reflexivity.
  - left; reflexivity.
Qed.

Lemma step_safe m reg tm bytes : reg_safe reg = true -> tm_safe tm -> tm_safe (step m reg tm bytes).
Proof.
  intros R S. unfold step.
  destruct (decode_packet m reg tm bytes) as [o tm'] eqn:D. cbn [snd].
  destruct o as [[h tid es|h tid rs]| | |].
  - destruct (decode_packet_template _ _ _ _ _ _ _ _ D) as [Sp ->].
    intros d i tpl L.
    destruct (N.eq_dec d (h_obs h)) as [->|Nd]; [destruct (N.eq_dec i tid) as [->|Ni]|].
    + rewrite tm_lookup_add_same in L. assert (tpl = es) as -> by congruence.
      unfold spec_template in Sp.
      destruct (_ && _ && _); [|discriminate].
      destruct (wire_fields _ _) as [wf|]; [|discriminate].
      destruct (_ && _); [|discriminate].
      assert (es = map (spec_elem reg) wf) as -> by congruence.
      rewrite forallb_forall. intros x I. apply in_map_iff in I as (w & <- & _).
      now apply spec_elem_safe.
    + rewrite tm_lookup_add_other in L by congruence. exact (S _ _ _ L).
    + rewrite tm_lookup_add_other in L by congruence. exact (S _ _ _ L).
  - destruct (decode_packet_data _ _ _ _ _ _ _ _ D) as [_ ->]. exact S.
  - pose proof (decode_packet_tmap m reg tm bytes) as T. rewrite D in T. cbn [fst snd] in T.
    destruct T as [->|[(es & E & _)|(_ & ->)]]; [exact S|discriminate|].
    intros d i tpl L.
    destruct (N.eq_dec d (wire_obs bytes)) as [->|Nd]; [destruct (N.eq_dec i (wire_tid bytes)) as [->|Ni]|].
    + rewrite tm_lookup_delete_same in L. discriminate.
    + rewrite tm_lookup_delete_other in L by congruence. exact (S _ _ _ L).
    + rewrite tm_lookup_delete_other in L by congruence. exact (S _ _ _ L).
  - pose proof (decode_packet_tmap m reg tm bytes) as T. rewrite D in T. cbn [fst snd] in T.
    destruct T as [->|[(es & E & _)|((k & E) & _)]]; [exact S|discriminate|discriminate].
  - pose proof (decode_packet_tmap m reg tm bytes) as T. rewrite D in T. cbn [fst snd] in T.
    destruct T as [->|[(es & E & _)|((k & E) & _)]]; [exact S|discriminate|discriminate].
Qed.

Lemma run_from_safe m reg hist : forall tm,
  reg_safe reg = true -> tm_safe tm -> tm_safe (fold_left (step m reg) hist tm).
Proof.
  induction hist as [|p ps IH]; intros tm R S; cbn [fold_left]; [exact S|].
  apply IH; [exact R|now apply step_safe].
Qed.

Lemma run_safe m reg hist : reg_safe reg = true -> tm_safe (run m reg hist).
Proof. intros R. apply run_from_safe; [exact R|apply tm_safe_nil]. Qed.

(* the shipped registry (regenerated): every numeric element has its type's width *)
Lemma registry_safe : reg_safe registry = true.
Proof. vm_compute. reflexivity. Qed.

(* ================= completeness: what the specification accepts, the decoder delivers ========= *)
Lemma rd_complete k buf : (k <= length buf)%nat -> rd k buf = Ok (bed (firstn k buf), skipn k buf).
Proof. intros H. unfold rd. rewrite short_ltb. destruct (Nat.ltb_spec (length buf) k); [lia|reflexivity]. Qed.

Lemma short_false buf n : short buf n = false -> (n <= length buf)%nat.
Proof. rewrite short_ltb. destruct (Nat.ltb_spec (length buf) n); [discriminate|lia]. Qed.

Lemma read_header_complete bytes :
  short bytes 20 = false ->
  read_header bytes = Ok (bed (firstn 2 bytes), wire_hdr bytes, wire_setid bytes,
                          bed (firstn 2 (skipn 18 bytes)), skipn 20 bytes).
Proof.
  intros S. apply short_false in S. unfold read_header.
  rewrite (rd_complete 2 bytes) by lia. cbn [obind].
  rewrite (rd_complete 2 (skipn 2 bytes)) by (rewrite skipn_length; lia). cbn [obind].
  rewrite !skipn_skipn. cbn [Nat.add].
  rewrite (rd_complete 4 (skipn 4 bytes)) by (rewrite skipn_length; lia). cbn [obind].
  rewrite !skipn_skipn. cbn [Nat.add].
  rewrite (rd_complete 4 (skipn 8 bytes)) by (rewrite skipn_length; lia). cbn [obind].
  rewrite !skipn_skipn. cbn [Nat.add].
  rewrite (rd_complete 4 (skipn 12 bytes)) by (rewrite skipn_length; lia). cbn [obind].
  rewrite !skipn_skipn. cbn [Nat.add].
  rewrite (rd_complete 2 (skipn 16 bytes)) by (rewrite skipn_length; lia). cbn [obind].
  rewrite !skipn_skipn. cbn [Nat.add].
  rewrite (rd_complete 2 (skipn 18 bytes)) by (rewrite skipn_length; lia). cbn [obind].
  rewrite !skipn_skipn. cbn [Nat.add]. reflexivity.
Qed.

Lemma resolve_complete m reg id ent wl :
  (m = Strict -> spec_known reg (id, ent, wl) = true) ->
  resolve m reg id ent wl = Ok (spec_elem reg (id, ent, wl)).
Proof.
  unfold resolve, spec_elem, spec_known. destruct (reg_lookup reg id ent); [reflexivity|].
  destruct m; try reflexivity. intros H. specialize (H eq_refl). discriminate.
Qed.

Lemma decode_tfields_complete m reg n : forall buf wf,
  wire_fields n buf = Some wf ->
  (m = Strict -> forallb (spec_known reg) wf = true) ->
  forallb zero_ok (map (spec_elem reg) wf) = true ->
  exists rest, decode_tfields m reg n buf = Ok (map (spec_elem reg) wf, rest).
Proof.
  induction n as [|n IH]; intros buf wf; cbn [wire_fields decode_tfields].
  - intros E _ _. assert (wf = []) as -> by congruence. eauto.
  - destruct buf as [|a [|b [|c [|d r]]]]; try discriminate.
    pose proof (bed2 a b) as B. pose proof (b2n_lt b) as Bb.
    unfold decode_tfield, rd. cbn [short firstn skipn obind]. rewrite ?short_0. cbn [obind].
    destruct (N.ltb_spec (b2n a) 128) as [L|L].
    + destruct (wire_fields n r) as [wf1|] eqn:W1; [|discriminate]. cbn [option_map].
      intros E. assert (wf = (bed [a; b], 0, bed [c; d]) :: wf1) as -> by congruence.
      cbn [forallb map]. intros Hs Hz. apply andb_true_iff in Hz as [Hz1 Hz2].
      destruct (N.ltb_spec (bed [a; b]) 32768); [|lia].
      rewrite resolve_complete.
      2:{ intros M. specialize (Hs M). now apply andb_true_iff in Hs as [Hs1 _]. }
      cbn [obind]. unfold zero_ok in Hz1.
      destruct (zero_value (ie_dt (spec_elem reg (bed [a; b], 0, bed [c; d])))); try discriminate. cbn [obind].
      destruct (IH r wf1 W1) as [rest Hr]; [|assumption|].
      { intros M. specialize (Hs M). now apply andb_true_iff in Hs as [_ Hs2]. }
      rewrite Hr. cbn [obind]. eauto.
    + destruct r as [|e1 [|e2 [|e3 [|e4 r']]]]; try discriminate.
      destruct (wire_fields n r') as [wf1|] eqn:W1; [|discriminate]. cbn [option_map].
      intros E. assert (wf = (bed [a; b] - 32768, bed [e1; e2; e3; e4], bed [c; d]) :: wf1) as -> by congruence.
      cbn [forallb map]. intros Hs Hz. apply andb_true_iff in Hz as [Hz1 Hz2].
      destruct (N.ltb_spec (bed [a; b]) 32768); [lia|].
      cbn [short firstn skipn obind]. rewrite ?short_0. cbn [obind].
      rewrite resolve_complete.
      2:{ intros M. specialize (Hs M). now apply andb_true_iff in Hs as [Hs1 _]. }
      cbn [obind]. unfold zero_ok in Hz1.
      destruct (zero_value (ie_dt (spec_elem reg (bed [a; b] - 32768, bed [e1; e2; e3; e4], bed [c; d])))); try discriminate. cbn [obind].
      destruct (IH r' wf1 W1) as [rest Hr]; [|assumption|].
      { intros M. specialize (Hs M). now apply andb_true_iff in Hs as [_ Hs2]. }
      rewrite Hr. cbn [obind]. eauto.
Qed.

Lemma hdr_ok_inv bytes : hdr_ok bytes = true -> short bytes 20 = false /\ N.eqb (bed (firstn 2 bytes)) 10 = true.
Proof. unfold hdr_ok. intros H. apply andb_true_iff in H as [H1 H2]. split; [now destruct (short bytes 20)|exact H2]. Qed.

Lemma spec_template_complete m reg tm bytes h tid es :
  spec_template m reg bytes = Some (h, tid, es) ->
  decode_packet m reg tm bytes = (Ok (TemplateMsg h tid es), tm_add tm (h_obs h) tid es).
Proof.
  unfold spec_template.
  destruct (hdr_ok bytes) eqn:H; [|discriminate]. cbn [andb].
  destruct (N.eqb (wire_setid bytes) c_entities_TemplateSetID) eqn:T; [|discriminate]. cbn [andb].
  destruct (short bytes 24) eqn:S24; [discriminate|]. cbn [negb].
  destruct (wire_fields _ _) as [wf|] eqn:W; [|discriminate].
  destruct ((match m with Strict => forallb (spec_known reg) wf | _ => true end) && _) eqn:C; [|discriminate].
  apply andb_true_iff in C as [C1 C2].
  intros E. assert (h = wire_hdr bytes /\ tid = wire_tid bytes /\ es = map (spec_elem reg) wf) as (-> & -> & ->)
    by (repeat split; congruence).
  apply hdr_ok_inv in H as [S20 V]. apply short_false in S24.
  unfold decode_packet. rewrite (read_header_complete bytes S20), V, T. cbn [negb].
  unfold decode_template_set.
  rewrite (rd_complete 2 (skipn 20 bytes)) by (rewrite skipn_length; lia). cbn [obind].
  rewrite !skipn_skipn. cbn [Nat.add].
  rewrite (rd_complete 2 (skipn 22 bytes)) by (rewrite skipn_length; lia). cbn [obind].
  rewrite !skipn_skipn. cbn [Nat.add].
  destruct (decode_tfields_complete m reg _ _ wf W) as [rest Hr]; [|assumption|].
  { intros ->. exact C1. }
  unfold wire_count in Hr. rewrite Hr. reflexivity.
Qed.

Lemma spec_packet_data_complete m reg tm bytes h tid rs :
  spec_packet_data m tm bytes = Some (h, tid, rs) ->
  decode_packet m reg tm bytes = (Ok (DataMsg h tid rs), tm).
Proof.
  unfold spec_packet_data, spec_packet_data_with.
  destruct (hdr_ok bytes) eqn:H; [|discriminate]. cbn [andb].
  destruct (N.eqb (wire_setid bytes) c_entities_TemplateSetID) eqn:T; [discriminate|]. cbn [negb].
  destruct (tm_lookup tm (wire_obs bytes) (wire_setid bytes)) as [tpl|] eqn:L; [|discriminate].
  destruct (spec_data (keep_of m) tpl (wire_body bytes)) as [rs0|] eqn:Sd; [|discriminate].
  cbn [option_map]. intros E.
  assert (h = wire_hdr bytes /\ tid = wire_setid bytes /\ rs0 = rs) as (-> & -> & ->) by (repeat split; congruence).
  apply hdr_ok_inv in H as [S20 V].
  unfold decode_packet. rewrite (read_header_complete bytes S20), V, T. cbn [negb].
  unfold decode_data_set. change (h_obs (wire_hdr bytes)) with (wire_obs bytes). rewrite L.
  apply spec_data_decode in Sd. unfold wire_body in Sd. rewrite Sd. reflexivity.
Qed.

(* decode_packet refines the specification: same message, and an error exactly when the byte
   string denotes no message *)
Lemma decode_packet_refines m reg tm bytes :
  tm_safe tm ->
  match fst (decode_packet m reg tm bytes) with
  | Ok msg => spec_packet m reg tm bytes = Some msg
  | Err _ => spec_packet m reg tm bytes = None
  | Panic | OutOfFuel => False
  end.
Proof.
  intros S. destruct (decode_packet_total m reg tm bytes S) as [P F].
  destruct (decode_packet m reg tm bytes) as [o tm'] eqn:D. cbn [fst] in *.
  destruct o as [[h tid es|h tid rs]|k| |]; try congruence.
  - destruct (decode_packet_template _ _ _ _ _ _ _ _ D) as [Sp _]. unfold spec_packet, spec_packet_with. now rewrite Sp.
  - destruct (decode_packet_data _ _ _ _ _ _ _ _ D) as [Sp _]. unfold spec_packet, spec_packet_with. fold (spec_packet_data m tm bytes).
    destruct (spec_template m reg bytes) as [[[h' tid'] es']|] eqn:St.
    + rewrite (spec_template_complete m reg tm bytes _ _ _ St) in D. discriminate.
    + now rewrite Sp.
  - unfold spec_packet, spec_packet_with. fold (spec_packet_data m tm bytes).
    destruct (spec_template m reg bytes) as [[[h' tid'] es']|] eqn:St.
    + rewrite (spec_template_complete m reg tm bytes _ _ _ St) in D. discriminate.
    + destruct (spec_packet_data m tm bytes) as [[[h' tid'] rs']|] eqn:Sd; [|reflexivity].
      rewrite (spec_packet_data_complete m reg tm bytes _ _ _ Sd) in D. discriminate.
Qed.
