(* C02: on the faithful model of the code BEFORE the repair "data record: an element whose length
   changed after it was added must not be sent" the statement is false: a concrete witness,
   evaluated by vm_compute; the same case line is in corpus/C02 and was replayed on the real
   unrepaired code (notes/C02.md). On the current model the case satisfies the oracle. *)
From Coq Require Import List Bool Arith NArith ZArith String.
From Verif.Base Require Import Bytes Outcome Str.
From Verif.Model Require Import IE Codec Record SetB Msg Exporter ExpObj.
From Verif.Driver Require Import Show SetShow HistShow HistObj RfcCheck C02drv.
Import ListNotations.
Local Open Scope string_scope.

(* the case is within the hypotheses of the oracle theorem and the oracle fails / holds on the
   model's own observation *)
Definition c02_refutes (fx : fixes) (txt : string) : bool :=
  match parse_gcase (tokens txt) with
  | Some c => let p := grun_all fx c in
              let m := gmodel_of (gc_full c) p in
              c02_wf_outs (fst p) (fst m) && negb (c02g_walk (fst p) (fst m))
  | None => false
  end.
Definition c02_satisfies (fx : fixes) (txt : string) : bool :=
  match parse_gcase (tokens txt) with
  | Some c => let p := grun_all fx c in
              let m := gmodel_of (gc_full c) p in
              c02_wf_outs (fst p) (fst m) && c02g_walk (fst p) (fst m)
  | None => false
  end.

(* template (string, unsigned16); the application adds a record ("abcdef", 0x1111), then reuses
   its element objects: SetStringValue("xy"), SetUnsigned16Value(0x2222), AddRecord again,
   SendSet. The first record was added with length 9 and is encoded from the current values:
   02 78 79 22 22 followed by four zero octets inside the set. *)
Definition case_shorter : string :=
  "udp 1 0 full S P T 256 A 1 256 2 100 13 0 65535 str - 101 2 0 2 u16 0 ; S P D 256 A 1 256 2 100 13 0 65535 str hex 616263646566 101 2 0 2 u16 4369 M 1 0 str hex 7879 M 1 1 u16 8738 AS 1 256 1 ;".

Lemma refuted_reclen : c02_refutes (mkFixes true true true false true) case_shorter = true.
Proof. vm_compute. reflexivity. Qed.
Lemma repaired_reclen : c02_satisfies cur case_shorter = true.
Proof. vm_compute. reflexivity. Qed.
