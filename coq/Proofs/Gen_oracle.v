(* The per-case oracles of C02 / C08 / C09 on object-level histories (Model/ExpObj.v: reused set
   objects, shared and changed element objects, GetBuffer before SendSet, template refresh,
   reconnects) hold on the model's own observation of every case within their hypotheses. *)
From Coq Require Import List Bool Arith NArith ZArith Lia String.
From Coq Require Import ZifyN ZifyNat ZifyBool.
From Coq.Strings Require Import Byte.
From Verif.Base Require Import Bytes Outcome Str.
From Verif.Model Require Import IE Codec Record SetB Msg Exporter ExpObj Rfc7011.
From Verif.Proofs Require Import Bytes_lemmas Codec_lemmas SetB_lemmas Exporter_lemmas C08_lemmas
  C09_lemmas Rfc_lemmas RfcData_lemmas C08_oracle C09_oracle ExpObj_lemmas C02gen_lemmas.
From Verif.Driver Require Import Show SetShow HistShow HistObj RfcCheck C08drv C02drv C09drv.
Import ListNotations.
Local Open Scope N_scope.
Local Notation length := List.length.

(* ---- the C02 demand holds on what the model transmits for a set in scope, for any set state
   a history can present to SendSet ---- *)
Lemma demand_template_m st s t bytes :
  InvM s -> (forall r, In r (s_recs s) -> rshape r) ->
  st_wf st -> r_wire (send_set cur st s t) = Some bytes ->
  s_type s = STemplate -> hdr_id s = 2 ->
  c02_in_scope s = true -> rfc_demand s bytes = true.
Proof.
  intros HI RS W Hw Ty Hid Sc.
  unfold c02_in_scope in Sc. rewrite Ty in Sc.
  assert (F : Forall tpl_rec_ok (s_recs s)).
  { apply Forall_forall. intros r Hr. rewrite forallb_forall in Sc. specialize (Sc r Hr).
    apply andb_true_iff in Sc as [Sc S4]. apply andb_true_iff in Sc as [Sc S3].
    apply andb_true_iff in Sc as [S1 S2].
    destruct (RS r Hr) as (_ & _ & Tl).
    split; [destruct (rec_is_data r); [discriminate|reflexivity]|].
    split; [lia|]. split; [unfold nels; lia|].
    apply Forall_forall. intros ev Hev. rewrite forallb_forall in S4. specialize (S4 ev Hev).
    unfold RfcCheck.wf_ie_spec in S4. unfold Rfc_lemmas.wf_ie_spec. lia. }
  destruct (wellformed_frame_m (fun _ => Some (set_widths s)) st s t bytes HI W Hw) as (_ & L).
  pose proof (wellformed_template_set_s (fun _ => Some (set_widths s)) st s t bytes HI
                (fun r Hr => proj1 (RS r Hr)) W Hw Hid F) as P.
  unfold rfc_demand. rewrite P. cbn [wm_version wm_length wm_setlen wm_setid wm_body]. rewrite Ty.
  replace (blen bytes - 16 + 16) with (blen bytes) by lia.
  rewrite !N.eqb_refl. cbn [N.eqb Pos.eqb andb]. apply body_eqb_refl.
Qed.

Lemma demand_data_m st s t bytes :
  InvM s -> st_wf st -> r_wire (send_set cur st s t) = Some bytes ->
  s_type s = SData ->
  (forall r, In r (s_recs s) -> rec_is_data r = true -> wf_record (rec_els r) = true) ->
  c02_in_scope s = true -> rfc_demand s bytes = true.
Proof.
  intros HI W Hw Ty Wf Sc.
  unfold c02_in_scope in Sc. rewrite Ty in Sc.
  apply andb_true_iff in Sc as [Sc S4]. apply andb_true_iff in Sc as [Sc S3].
  apply andb_true_iff in Sc as [S1 S2].
  assert (F : Forall (data_rec_ok (set_widths s)) (s_recs s)).
  { apply Forall_forall. intros r Hr. rewrite forallb_forall in S3. specialize (S3 r Hr).
    apply andb_true_iff in S3 as [D _].
    unfold uniform_widths in S2. rewrite forallb_forall in S2. specialize (S2 r Hr).
    apply list_eqb_N_eq in S2. split; [exact D|]. split; [now apply Wf|exact S2]. }
  pose proof (sent_data_good st s t bytes Hw Ty) as G.
  pose proof (InvM_good_Inv s HI G) as HInv.
  assert (NZ : forall r, In r (s_recs s) -> record_len (rec_els r) <> 0).
  { intros r Hr. rewrite forallb_forall in S3. specialize (S3 r Hr).
    apply andb_true_iff in S3 as [D Z]. specialize (G r Hr).
    destruct r as [? ? ? ? ?|tid fc els len]; [discriminate|]. cbn [good_rec rec_els] in *.
    unfold rec_nonempty in Z. cbn [rec_len] in Z. subst len. lia. }
  destruct (wellformed_frame_m (fun _ => Some (set_widths s)) st s t bytes HI W Hw) as (_ & L).
  destruct (wellformed_data_set_s (fun _ => Some (set_widths s)) st s t bytes (set_widths s) HInv W Hw
              ltac:(lia) eq_refl F NZ) as (d & Ed & P).
  unfold rfc_demand. rewrite P. cbn [wm_version wm_length wm_setlen wm_setid wm_body]. rewrite Ty.
  replace (blen bytes - 16 + 16) with (blen bytes) by lia.
  rewrite !N.eqb_refl. cbn [N.eqb Pos.eqb andb].
  change (exp_data s) with (expected_data s). rewrite Ed. apply body_eqb_refl.
Qed.

(* ---- one SendSet of a history, as the C02 oracle sees it ---- *)
Lemma c02_send_model full st s t :
  InvM s -> (forall r, In r (s_recs s) -> rshape r) -> st_wf st ->
  case_set_ok s = true ->
  c02_send_check s (sobs_of full (send_set cur st s t)) = true.
Proof.
  intros HI RS HW OK1. set (x := send_set cur st s t).
  unfold c02_send_check, sobs_of. cbn [so_res so_wire].
  destruct (r_res x) as [n|k| |] eqn:R; try reflexivity.
  destruct (send_set_ok_m st s t n HI HW R) as [bytes [Hw Hnn _ _ _ _ _ _]].
  fold x in Hw. rewrite Hw. destruct full; cbn [wobs_of]; [|reflexivity].
  subst n. rewrite N.eqb_refl. cbn [andb].
  destruct (c02_in_scope s) eqn:Sc; [|reflexivity].
  unfold case_set_ok in OK1. apply andb_true_iff in OK1 as [OK1 Tp]. apply andb_true_iff in OK1 as [Ho Pr].
  destruct (s_type s) eqn:Ty.
  - unfold prepared in Pr. rewrite Ty in Pr. apply N.eqb_eq in Pr.
    apply (demand_template_m st s t bytes HI RS HW Hw Ty Pr Sc).
  - apply (demand_data_m st s t bytes HI HW Hw Ty); [|exact Sc].
    intros r0 Hin _.
    apply (data_recs_wf s Ty Ho Tp (send_ok_data_bufs st s t _ R Ty) r0 Hin).
  - unfold c02_in_scope in Sc. rewrite Ty in Sc. discriminate.
Qed.

(* ---- the refresh, as the C02 oracle sees it ---- *)
Lemma In_insert_bytes x y l : In y (insert_bytes x l) -> y = x \/ In y l.
Proof.
  induction l as [|z r IH]; cbn [insert_bytes].
  - intros [<-|[]]. now left.
  - destruct (bytes_leb x z).
    + intros [<-|H]; [now left|now right].
    + intros [<-|H]; [right; now left|]. destruct (IH H) as [->|H']; [now left|right; now right].
Qed.
Lemma In_sort_bytes y l : In y (sort_bytes l) -> In y l.
Proof.
  unfold sort_bytes. induction l as [|x r IH]; cbn [fold_right]; [auto|].
  intros H. apply In_insert_bytes in H as [->|H]; [now left|right; now apply IH].
Qed.

(* every message a refresh writes is the message SendSet wrote for the set MakeTemplateSet
   builds for some registered template, in a well-formed exporter state *)
Lemma send_all_wires t : forall m ss st,
  st_wf st -> make_sets m = Ok ss ->
  forall b, In b (wires (send_all cur st ss t)) ->
  exists p s st', In p m /\ make_template_set (fst p) (fst (snd p)) = Ok s /\ st_wf st' /\
                  r_wire (send_set cur st' s t) = Some b.
Proof.
  induction m as [|[id [ies ml]] r IH]; intros ss st W Hm b Hb.
  - cbn [make_sets] in Hm. injection Hm as <-. destruct Hb.
  - cbn [make_sets] in Hm.
    destruct (make_template_set id ies) as [s| | |] eqn:Es; cbn [obind] in Hm; try discriminate.
    destruct (make_sets r) as [ss'| | |] eqn:Er; cbn [obind] in Hm; try discriminate.
    injection Hm as <-. cbn [send_all] in Hb.
    assert (Here : forall b', r_wire (send_set cur st s t) = Some b' -> b = b' ->
              exists p s0 st', In p ((id, (ies, ml)) :: r) /\ make_template_set (fst p) (fst (snd p)) = Ok s0 /\
                               st_wf st' /\ r_wire (send_set cur st' s0 t) = Some b).
    { intros b' Hw ->. exists (id, (ies, ml)), s, st. cbn [fst snd]. repeat split; auto. now left. }
    destruct (r_res (send_set cur st s t)) eqn:R; cbn [wires] in Hb;
      destruct (r_wire (send_set cur st s t)) as [b'|] eqn:Hw; cbn [In] in Hb.
    + destruct Hb as [<-|Hb]; [now apply (Here b')|].
      destruct (IH ss' _ (send_st_wf' st s t W) eq_refl b Hb) as (p & s0 & st' & Hp & A & B & C).
      exists p, s0, st'. repeat split; auto. now right.
    + destruct (IH ss' _ (send_st_wf' st s t W) eq_refl b Hb) as (p & s0 & st' & Hp & A & B & C).
      exists p, s0, st'. repeat split; auto. now right.
    + destruct Hb as [<-|[]]. now apply (Here b').
    + destruct Hb.
    + destruct Hb as [<-|[]]. now apply (Here b').
    + destruct Hb.
    + destruct Hb as [<-|[]]. now apply (Here b').
    + destruct Hb.
Qed.

Lemma refresh_demand_model p s st t b :
  make_template_set (fst p) (fst (snd p)) = Ok s -> st_wf st ->
  r_wire (send_set cur st s t) = Some b -> refresh_demand p b = true.
Proof.
  intros Hm W Hw. unfold refresh_demand. rewrite Hm.
  destruct (c02_in_scope s) eqn:Sc; [|reflexivity].
  destruct (make_template_set_spec _ _ _ Hm) as (els & _ & ->).
  apply (demand_template_m st (tpl_set (fst p) els) t b (tpl_set_InvM _ _)); auto.
  intros r Hr. unfold tpl_set, s_recs in Hr. cbn [s_rrecs rev_append] in Hr. destruct Hr as [<-|[]].
  split; [|split].
  - cbn [tshape]. rewrite tpl_buf_u16. reflexivity.
  - reflexivity.
  - apply u16_lt'.
Qed.

Lemma c02_refresh_model full st t :
  st_wf st ->
  let r := if x_udp st then refresh cur st t else Ok [] in
  c02_refresh_check st (map (wobs_of full) (sort_bytes (refresh_wires r))) = true.
Proof.
  intros W r. unfold c02_refresh_check. apply forallb_forall. intros w Hw.
  apply in_map_iff in Hw as (b & <- & Hb). apply In_sort_bytes in Hb.
  destruct full; cbn [wobs_of]; [|reflexivity].
  unfold r in Hb. destruct (x_udp st); [|destruct Hb].
  unfold refresh in Hb. destruct (make_sets (x_tpls st)) as [ss| | |] eqn:Em; cbn [obind refresh_wires] in Hb;
    try destruct Hb.
  destruct (send_all_wires t (x_tpls st) ss st W Em b Hb) as (p & s & st' & Hp & A & B & C).
  apply existsb_exists. exists p. split; [exact Hp|]. eapply refresh_demand_model; eassumption.
Qed.

(* ---- whole histories: the C02 oracle on the model ---- *)
Lemma c02g_walk_model full : forall h w,
  WInv w -> forallb out_in_hyp (grun cur w h) = true ->
  c02g_walk (grun cur w h) (map (gobs_of full) (grun cur w h)) = true.
Proof.
  induction h as [|e r IH]; intros w HW Hy; [reflexivity|].
  cbn [grun] in *. destruct (gstep_inv w e HW) as [HW' O].
  destruct (gstep cur w e) as [w' o]. cbn [fst snd] in *.
  cbn [forallb] in Hy. apply andb_true_iff in Hy as [Hy1 Hy2].
  cbn [map c02g_walk]. specialize (IH w' HW' Hy2).
  destruct o as [st s t x|st t rr|st q]; cbn [gobs_of out_ok out_in_hyp] in *.
  - destruct O as (HI & RS & Wst & ->). rewrite IH, andb_true_r.
    now apply c02_send_model.
  - destruct O as (Wst & ->). rewrite IH, andb_true_r. now apply c02_refresh_model.
  - rewrite IH. reflexivity.
Qed.

Theorem c02_oracle_on_model_g c :
  c02_wf c (fst (gmodel cur c)) = true -> C02_holds_on c (gmodel cur c) = true.
Proof.
  unfold c02_wf, c02_wf_outs, C02_holds_on, gmodel, gmodel_of. cbn [fst]. rewrite grun_all_outs.
  intros H. apply andb_true_iff in H as [H _]. unfold gouts in *.
  apply c02g_walk_model; [|exact H].
  apply WInv_init. unfold st_wf. cbn [x_seq]. now rewrite u32_idem.
Qed.
