(* C05: the exporter contract (wf_history) and the closed forms of the aggregation arithmetic.

   Everything here is derived from spec_step (Proofs/Agg_spec.v) alone: pure list / N reasoning,
   no record-level reasoning.  Proofs/C05_lemmas.v combines these closed forms with the
   refinement theorem (Agg_lemmas.aggregation_refinement). *)
From Coq Require Import List Bool Arith NArith ZArith String Lia Permutation.
From Coq Require Import ZifyN ZifyNat ZifyBool.
From Verif.Model Require Import Agg.
From Verif.Proofs Require Import Agg_spec Agg_lemmas.
Import ListNotations.
Local Open Scope string_scope.
Local Open Scope N_scope.
Local Open Scope list_scope.
Local Notation length := List.length.

(* ---------------------------------------------------------------- the records of a flow *)
Definition frec := (bool * bool * rec_obs)%type.        (* feeds source fields, feeds destination fields, values *)
Definition ev_rec (e : fev) : list frec := match e with Rec fs fd o => [(fs, fd, o)] | Reset => [] end.
Definition recs (evs : list fev) : list frec := flat_map ev_rec evs.

Inductive node := SrcNode | DstNode.
Definition feeds (n : node) (x : frec) : bool :=
  match n with SrcNode => fst (fst x) | DstNode => snd (fst x) end.
Definition nd (n : node) (f : flow_abs) : node_acc :=
  match n with SrcNode => f_src f | DstNode => f_dst f end.

(* the records that node n reported (a flow that needs no correlation is one reporting stream
   that feeds both nodes' fields) *)
Definition node_recs (n : node) (evs : list fev) : list rec_obs := map snd (filter (feeds n) (recs evs)).
(* the events after the last reset *)
Definition since_reset (evs : list fev) : list fev :=
  fold_left (fun acc e => match e with Reset => [] | Rec _ _ _ => acc ++ [e] end) evs [].

Definition last_opt {A} (l : list A) : option A := hd_error (rev l).

(* positions in StatsElements *)
Definition nstats (c : agg_config) : nat := length (c_stats c).
Definition is_delta (c : agg_config) (i : nat) : bool := contains "Delta" (nth i (c_stats c) "").
Fixpoint idx (n : string) (l : list string) : nat :=
  match l with
  | [] => O
  | x :: t => if String.eqb x n then O else S (idx n t)
  end.
Definition oct_pos (c : agg_config) : nat := idx "octetTotalCount" (c_stats c).
Definition roct_pos (c : agg_config) : nat := idx "reverseOctetTotalCount" (c_stats c).
Definition stat (i : nat) (o : rec_obs) : N := nth i (o_stat o) 0.
Definition col (i : nat) (l : list rec_obs) : list N := map (stat i) l.

Definition sum64 (l : list N) : N := fold_right N.add 0 l mod W64.
Definition maxl (l : list N) : N := fold_right N.max 0 l.

(* ---------------------------------------------------------------- closed forms, per reporting node *)
Definition node_end (n : node) (evs : list fev) : N :=
  match last_opt (node_recs n evs) with Some p => o_end p | None => 0 end.
(* a total counter: the value of the node's latest record *)
Definition node_total (n : node) (i : nat) (evs : list fev) : N :=
  match last_opt (node_recs n evs) with Some p => stat i p | None => 0 end.
(* a delta counter: the sum over the node's records since the last reset, mod 2^64 *)
Definition node_delta (n : node) (i : nat) (evs : list fev) : N :=
  sum64 (col i (node_recs n (since_reset evs))).
(* throughput of record o after the node's previous record prev (none: measured from the flow start) *)
Definition tp_pair (prev : option rec_obs) (o : rec_obs) : list N :=
  let pe := match prev with Some p => o_end p | None => o_start o end in
  let po := match prev with Some p => o_oct p | None => 0 end in
  let pr := match prev with Some p => o_roct p | None => 0 end in
  [mul8 (o_oct o - po) / (o_end o - pe); mul8 (o_roct o - pr) / (o_end o - pe)].
Definition node_tp (n : node) (evs : list fev) : list N :=
  match node_recs n (since_reset evs) with
  | [] => [0; 0]
  | _ :: _ => match rev (node_recs n evs) with
              | o :: rest => tp_pair (hd_error rest) o
              | [] => [0; 0]
              end
  end.

(* ---------------------------------------------------------------- the latest reporter *)
(* the record with the latest end time; among equal end times the one that arrived last
   (the code tests incoming >= existing) *)
Definition later (cur : option frec) (x : frec) : option frec :=
  match cur with
  | Some y => if N.leb (o_end (snd y)) (o_end (snd x)) then Some x else cur
  | None => Some x
  end.
Definition latest (evs : list fev) : option frec := fold_left later (recs evs) None.
Definition node_of (x : frec) : node := if snd (fst x) then DstNode else SrcNode.
Definition latest_node (evs : list fev) : node :=
  match latest evs with Some x => node_of x | None => SrcNode end.
(* the records that carried the latest end time when they arrived *)
Definition fronts (evs : list fev) : list rec_obs :=
  fold_left (fun acc x => if N.leb (maxl (map o_end acc)) (o_end (snd x)) then acc ++ [snd x] else acc)
            (recs evs) [].

(* ---------------------------------------------------------------- the exporter contract *)
Definition totals_le (c : agg_config) (p o : rec_obs) : bool :=
  forallb (fun i => is_delta c i || N.leb (stat i p) (stat i o)) (seq 0 (nstats c)).
(* per reporting node: end times strictly increase, totals do not decrease *)
Definition node_ok (c : agg_config) (pre : list fev) (n : node) (x : frec) : bool :=
  if feeds n x then
    match last_opt (node_recs n pre) with
    | Some p => N.ltb (o_end p) (o_end (snd x)) && totals_le c p (snd x)
    | None => true
    end
  else true.
(* one event after the events pre of the same flow: end > start, counters are uint64, the flow's
   correlation requirement is the same as for every earlier record, per-node monotonicity *)
Definition ev_ok (c : agg_config) (pre : list fev) (e : fev) : bool :=
  match e with
  | Reset => true
  | Rec fs fd o =>
      (fs || fd) && N.ltb (o_start o) (o_end o) && forallb (fun v => N.ltb v W64) (o_stat o) &&
      forallb (fun y : frec => Bool.eqb (fst (fst y) && snd (fst y)) (fs && fd)) (recs pre) &&
      node_ok c pre SrcNode (fs, fd, o) && node_ok c pre DstNode (fs, fd, o)
  end.
Fixpoint wf_from (c : agg_config) (pre evs : list fev) : bool :=
  match evs with
  | [] => true
  | e :: t => ev_ok c pre e && wf_from c (pre ++ [e]) t
  end.
Definition wf_events (c : agg_config) (evs : list fev) : bool := wf_from c [] evs.

(* flow-level precondition of "common total = latest value": along the records that carry the
   latest end time on arrival, totals do not decrease *)
Definition mono_ok (c : agg_config) (pre : list fev) (e : fev) : bool :=
  match e with
  | Reset => true
  | Rec fs fd o =>
      match latest pre with
      | Some y => if N.leb (o_end (snd y)) (o_end o) then totals_le c (snd y) o else true
      | None => true
      end
  end.
Fixpoint mono_from (c : agg_config) (pre evs : list fev) : bool :=
  match evs with
  | [] => true
  | e :: t => mono_ok c pre e && mono_from c (pre ++ [e]) t
  end.
Definition flow_mono (c : agg_config) (evs : list fev) : bool := mono_from c [] evs.

(* histories: every flow's events satisfy the contract *)
Definition op_key (o : op) : option key :=
  match o with OpRec r => rec_key r | OpReset k => Some k end.
Definition add_key (seen : list key) (k : key) : list key :=
  if existsb (key_eqb k) seen then seen else seen ++ [k].
(* the distinct 5-tuples of the records of a history, in order of first appearance *)
Definition flow_keys (h : list op) : list key :=
  fold_left (fun seen o => match o with
                           | OpRec r => match rec_key r with Some k => add_key seen k | None => seen end
                           | OpReset _ => seen
                           end) h [].
Definition contract_history (c : agg_config) (h : list op) : bool :=
  forallb (fun k => wf_events c (events_of c h k)) (flow_keys h).
Definition wf_history (c : agg_config) (h : list op) : bool :=
  typed_history c h && contract_history c h.
Definition flow_mono_history (c : agg_config) (h : list op) (k : key) : bool :=
  flow_mono c (events_of c h k).

(* what obs_of guarantees *)
Definition obs_ok (c : agg_config) (o : rec_obs) : Prop :=
  length (o_stat o) = nstats c /\ o_oct o = stat (oct_pos c) o /\ o_roct o = stat (roct_pos c) o.

(* ================================================================ list helpers *)
Lemma recs_app : forall a b, recs (a ++ b) = recs a ++ recs b.
Proof. intros. unfold recs. apply flat_map_app. Qed.
Lemma node_recs_app : forall n a b, node_recs n (a ++ b) = node_recs n a ++ node_recs n b.
Proof. intros. unfold node_recs. rewrite recs_app, filter_app, map_app. reflexivity. Qed.
Lemma last_opt_snoc : forall A (l : list A) x, last_opt (l ++ [x]) = Some x.
Proof. intros. unfold last_opt. rewrite rev_unit. reflexivity. Qed.
Lemma last_opt_nil : forall A, @last_opt A [] = None.
Proof. reflexivity. Qed.
Lemma last_opt_in : forall A (l : list A) x, last_opt l = Some x -> In x l.
Proof.
  intros A l x H. unfold last_opt in H. apply in_rev. destruct (rev l); simpl in H; [discriminate|].
  inversion H. left. reflexivity.
Qed.
Lemma since_reset_rec : forall evs fs fd o,
  since_reset (evs ++ [Rec fs fd o]) = since_reset evs ++ [Rec fs fd o].
Proof. intros. unfold since_reset. rewrite fold_left_app. reflexivity. Qed.
Lemma since_reset_reset : forall evs, since_reset (evs ++ [Reset]) = [].
Proof. intros. unfold since_reset. rewrite fold_left_app. reflexivity. Qed.
Lemma latest_snoc : forall evs fs fd o, latest (evs ++ [Rec fs fd o]) = later (latest evs) (fs, fd, o).
Proof. intros. unfold latest. rewrite recs_app, fold_left_app. reflexivity. Qed.
Lemma latest_reset : forall evs, latest (evs ++ [Reset]) = latest evs.
Proof. intros. unfold latest. rewrite recs_app. simpl. rewrite app_nil_r. reflexivity. Qed.
Lemma fronts_snoc : forall evs fs fd o,
  fronts (evs ++ [Rec fs fd o]) =
  if N.leb (maxl (map o_end (fronts evs))) (o_end o) then fronts evs ++ [o] else fronts evs.
Proof. intros. unfold fronts. rewrite recs_app, fold_left_app. reflexivity. Qed.
Lemma fronts_reset : forall evs, fronts (evs ++ [Reset]) = fronts evs.
Proof. intros. unfold fronts. rewrite recs_app. simpl. rewrite app_nil_r. reflexivity. Qed.

Lemma maxl_snoc : forall l x, maxl (l ++ [x]) = N.max (maxl l) x.
Proof. induction l; intros; simpl; [lia|]. rewrite IHl. lia. Qed.
Lemma maxl_ge : forall l x, In x l -> x <= maxl l.
Proof. induction l; simpl; intros x H; [contradiction|]. destruct H; [subst; lia|]. apply IHl in H. lia. Qed.
Lemma sum_snoc : forall l x, fold_right N.add 0 (l ++ [x]) = fold_right N.add 0 l + x.
Proof. induction l; intros; simpl; [lia|]. rewrite IHl. lia. Qed.
Lemma W64_pos : W64 <> 0.
Proof. unfold W64. discriminate. Qed.
Lemma sum64_snoc : forall l x, sum64 (l ++ [x]) = add64 x (sum64 l).
Proof.
  intros. unfold sum64, add64. rewrite sum_snoc. rewrite N.add_mod_idemp_r by exact W64_pos.
  f_equal. lia.
Qed.
Lemma sum64_nil : sum64 [] = 0.
Proof. reflexivity. Qed.

Lemma wf_from_snoc : forall c evs pre e,
  wf_from c pre (evs ++ [e]) = wf_from c pre evs && ev_ok c (pre ++ evs) e.
Proof.
  induction evs; intros; simpl.
  - rewrite app_nil_r, andb_true_r. reflexivity.
  - rewrite IHevs. rewrite <- app_assoc. simpl. rewrite andb_assoc. reflexivity.
Qed.
Lemma wf_events_snoc : forall c evs e, wf_events c (evs ++ [e]) = wf_events c evs && ev_ok c evs e.
Proof. intros. unfold wf_events. rewrite wf_from_snoc. reflexivity. Qed.
Lemma mono_from_snoc : forall c evs pre e,
  mono_from c pre (evs ++ [e]) = mono_from c pre evs && mono_ok c (pre ++ evs) e.
Proof.
  induction evs; intros; simpl.
  - rewrite app_nil_r, andb_true_r. reflexivity.
  - rewrite IHevs. rewrite <- app_assoc. simpl. rewrite andb_assoc. reflexivity.
Qed.
Lemma flow_mono_snoc : forall c evs e, flow_mono c (evs ++ [e]) = flow_mono c evs && mono_ok c evs e.
Proof. intros. unfold flow_mono. rewrite mono_from_snoc. reflexivity. Qed.

Lemma spec_flow_snoc : forall c evs e, spec_flow c (evs ++ [e]) = spec_step c (spec_flow c evs) e.
Proof. intros. unfold spec_flow. rewrite fold_left_app. reflexivity. Qed.

(* no flow record yet <-> only resets so far *)
Lemma spec_flow_none : forall c evs, spec_flow c evs = None -> recs evs = [] /\ since_reset evs = [].
Proof.
  intros c evs. induction evs as [|e evs IH] using rev_ind; intro H; [split; reflexivity|].
  rewrite spec_flow_snoc in H. destruct e as [fs fd o|].
  - destruct (spec_flow c evs); discriminate.
  - destruct (spec_flow c evs) eqn:E; [discriminate|]. destruct (IH eq_refl) as [I1 I2].
    rewrite recs_app, I1, since_reset_reset. split; reflexivity.
Qed.
Lemma spec_flow_some : forall c evs, recs evs = [] -> spec_flow c evs = None.
Proof.
  intros c evs. induction evs as [|e evs IH] using rev_ind; intro H; [reflexivity|].
  rewrite recs_app in H. apply app_eq_nil in H. destruct H as [H1 H2].
  rewrite spec_flow_snoc, (IH H1). destruct e; [discriminate|reflexivity].
Qed.

(* nth helpers *)
Lemma zip5_length : forall (ds : list sdesc) (iv av bv cv : list N),
  length iv = length ds -> length av = length ds -> length bv = length ds -> length cv = length ds ->
  length (zip5 ds iv av bv cv) = length ds.
Proof.
  induction ds; intros [|? iv] [|? av] [|? bv] [|? cv]; simpl; intros; try discriminate; try reflexivity.
  f_equal. apply IHds; congruence.
Qed.
Lemma zip5_nth : forall (ds : list sdesc) (iv av bv cv : list N) i dd,
  length iv = length ds -> length av = length ds -> length bv = length ds -> length cv = length ds ->
  (i < length ds)%nat ->
  nth i (zip5 ds iv av bv cv) (dd, 0, 0, 0, 0) = (nth i ds dd, nth i iv 0, nth i av 0, nth i bv 0, nth i cv 0).
Proof.
  induction ds; intros [|? iv] [|? av] [|? bv] [|? cv] i dd; simpl; intros; try discriminate; try lia.
  destruct i; [reflexivity|]. apply IHds; try congruence. lia.
Qed.

(* ================================================================ the statistics loop, row by row *)
Definition row_vals (fs fd latest : bool) (row : srow) : N * N * N :=
  let '(d, iv, av, bv, cv) := row in
  let a' := if fs then (if d_delta d then add64 iv av else iv) else av in
  let b' := if fd then (if d_delta d then add64 iv bv else iv) else bv in
  let c' := if latest then
              (if d_delta d then (if fd then b' else if fs then a' else cv) else N.max cv iv)
            else cv in
  (a', b', c').
Definition row_acc (fs fd : bool) (acc : N * N) (row : srow) : N * N :=
  let '(d, iv, av, bv, cv) := row in
  let acc1 := if fs && negb (d_delta d)
              then (if d_os d then (sub64 iv av, snd acc) else if d_rs d then (fst acc, sub64 iv av) else acc)
              else acc in
  if fd && negb (d_delta d)
  then (if d_od d then (sub64 iv bv, snd acc1) else if d_rd d then (fst acc1, sub64 iv bv) else acc1)
  else acc1.

Lemma row_step_eq : forall fs fd latest row acc,
  row_step fs fd latest row acc = (row_vals fs fd latest row, row_acc fs fd acc row).
Proof.
  intros fs fd latest [[[[d iv] av] bv] cv] [x y]. unfold row_step, row_vals, row_acc, node_upd.
  assert (M : (if N.ltb cv iv then iv else cv) = N.max cv iv).
  { destruct (N.ltb_spec cv iv); lia. }
  destruct d as [dl os rs od rd]. cbn [d_delta d_os d_rs d_od d_rd].
  destruct fs, fd, latest, dl; cbn [negb andb fst snd]; rewrite ?M;
    try reflexivity; destruct os, rs, od, rd; reflexivity.
Qed.

Lemma spec_stats_eq : forall fs fd latest rows acc,
  spec_stats fs fd latest rows acc =
  (map (row_vals fs fd latest) rows, fold_left (row_acc fs fd) rows acc).
Proof.
  intros fs fd latest. induction rows as [|row rows IH]; intros acc; [reflexivity|].
  cbn [spec_stats]. rewrite row_step_eq. rewrite IH. reflexivity.
Qed.

(* descriptors as a function of the StatsElements name alone (wf_config: the per-node names of
   the two octet totals are exactly the four names the code dispatches on) *)
Definition desc_of_name (s : string) : sdesc :=
  {| d_delta := contains "Delta" s;
     d_os := String.eqb s "octetTotalCount"; d_rs := String.eqb s "reverseOctetTotalCount";
     d_od := String.eqb s "octetTotalCount"; d_rd := String.eqb s "reverseOctetTotalCount" |}.

Lemma descs_by_name : forall (S A B : list string),
  length A = length S -> length B = length S ->
  forallb octet_names_ok (zip3 S A B) = true ->
  map sdesc_of (zip3 S A B) = map desc_of_name S.
Proof.
  induction S as [|s S IH]; intros [|a A] [|b B]; simpl; intros HA HB H; try discriminate; [reflexivity|].
  apply andb_prop in H. destruct H as [H1 H2]. rewrite IH by congruence. f_equal.
  unfold desc_of_name.
  repeat (let X := fresh "E" in apply andb_prop in H1; destruct H1 as [H1 X]).
  apply eqb_prop in H1, E, E0, E1. rewrite <- H1, <- E1, <- E0, <- E. reflexivity.
Qed.

(* the accumulator of the loop: growth of the two octet totals of the reporting node *)
Definition rep_vals (fd : bool) (av bv : list N) : list N := if fd then bv else av.

Lemma row_acc_oct : forall fs fd x y i a b c0, (fs || fd) = true ->
  row_acc fs fd (x, y) (desc_of_name "octetTotalCount", i, a, b, c0) = (sub64 i (if fd then b else a), y).
Proof. intros [] [] x y i a b c0 F; try discriminate; reflexivity. Qed.
Lemma row_acc_roct : forall fs fd x y i a b c0, (fs || fd) = true ->
  row_acc fs fd (x, y) (desc_of_name "reverseOctetTotalCount", i, a, b, c0) = (x, sub64 i (if fd then b else a)).
Proof. intros [] [] x y i a b c0 F; try discriminate; reflexivity. Qed.
Lemma row_acc_other : forall fs fd x y s i a b c0,
  String.eqb s "octetTotalCount" = false -> String.eqb s "reverseOctetTotalCount" = false ->
  row_acc fs fd (x, y) (desc_of_name s, i, a, b, c0) = (x, y).
Proof.
  intros fs fd x y s i a b c0 E1 E2. unfold row_acc. cbn [desc_of_name d_delta d_os d_rs d_od d_rd].
  rewrite E1, E2. destruct (fs && negb (contains "Delta" s)), (fd && negb (contains "Delta" s)); reflexivity.
Qed.

Lemma acc_closed : forall fs fd (S : list string) (iv av bv cv : list N) x y,
  (fs || fd) = true -> NoDup S ->
  length iv = length S -> length av = length S -> length bv = length S -> length cv = length S ->
  fold_left (row_acc fs fd) (zip5 (map desc_of_name S) iv av bv cv) (x, y) =
  ((if mem "octetTotalCount" S
    then sub64 (nth (idx "octetTotalCount" S) iv 0) (nth (idx "octetTotalCount" S) (rep_vals fd av bv) 0)
    else x),
   (if mem "reverseOctetTotalCount" S
    then sub64 (nth (idx "reverseOctetTotalCount" S) iv 0) (nth (idx "reverseOctetTotalCount" S) (rep_vals fd av bv) 0)
    else y)).
Proof.
  intros fs fd S. induction S as [|s S IH]; intros [|i iv] [|a av] [|b bv] [|c0 cv] x y F ND;
    cbn [length]; intros; try discriminate; [reflexivity|].
  inversion ND as [|? ? NI ND']; subst.
  assert (NM : mem s S = false).
  { unfold mem. destruct (existsb (String.eqb s) S) eqn:E; [|reflexivity].
    apply existsb_exists in E. destruct E as (z & Z1 & Z2). apply String.eqb_eq in Z2. subst. contradiction. }
  cbn [map zip5 fold_left]. unfold mem. cbn [existsb idx]. fold (mem "octetTotalCount" S) (mem "reverseOctetTotalCount" S).
  destruct (String.eqb s "octetTotalCount") eqn:E1.
  - apply String.eqb_eq in E1. subst s. rewrite row_acc_oct by assumption.
    rewrite IH by (try assumption; congruence). rewrite NM. cbn. destruct fd; reflexivity.
  - destruct (String.eqb s "reverseOctetTotalCount") eqn:E2.
    + apply String.eqb_eq in E2. subst s. rewrite row_acc_roct by assumption.
      rewrite IH by (try assumption; congruence). rewrite NM. cbn. destruct fd; reflexivity.
    + rewrite row_acc_other by assumption.
      rewrite (String.eqb_sym "octetTotalCount" s), (String.eqb_sym "reverseOctetTotalCount" s), E1, E2.
      cbn [orb]. rewrite IH by (try assumption; congruence). destruct fd; reflexivity.
Qed.

(* ================================================================ one aggregateRecords step, field by field *)
Definition new_node (on delta : bool) (iv av : N) : N :=
  if on then (if delta then add64 iv av else iv) else av.
Definition reporter (fd : bool) : node := if fd then DstNode else SrcNode.
Definition prev_end (a : node_acc) (o : rec_obs) : N := if N.eqb (a_end a) 0 then o_start o else a_end a.
Definition agg_vals (c : agg_config) (f : flow_abs) (fd : bool) (o : rec_obs) : list N :=
  let r := nd (reporter fd) f in
  let diff := o_end o - prev_end r o in
  [mul8 (sub64 (stat (oct_pos c) o) (nth (oct_pos c) (a_stat r) 0)) / diff;
   mul8 (sub64 (stat (roct_pos c) o) (nth (roct_pos c) (a_stat r) 0)) / diff].

Lemma row_vals_named : forall fs fd latest s iv av bv cv,
  row_vals fs fd latest (desc_of_name s, iv, av, bv, cv) =
  (new_node fs (contains "Delta" s) iv av, new_node fd (contains "Delta" s) iv bv,
   if latest then
     (if contains "Delta" s
      then (if fd then new_node fd (contains "Delta" s) iv bv
            else if fs then new_node fs (contains "Delta" s) iv av else cv)
      else N.max cv iv)
   else cv).
Proof. intros. reflexivity. Qed.

Lemma stat_triples_len : forall c, wf_config c = true ->
  map sdesc_of (stat_triples c) = map desc_of_name (c_stats c).
Proof.
  intros c WF. pose proof (wf_config_facts c WF) as W. unfold stat_triples.
  apply descs_by_name; [apply (wf_len_src c W) | apply (wf_len_dst c W)|].
  apply forallb_forall. exact (wf_oct c W).
Qed.

Lemma nth_map0 : forall (g : N * N * N -> N) l i, g (0, 0, 0) = 0 ->
  nth i (map g l) 0 = g (nth i l (0, 0, 0)).
Proof.
  intros g l i H. transitivity (nth i (map g l) (g (0, 0, 0))); [f_equal; symmetry; exact H | apply map_nth].
Qed.

Lemma spec_agg_facts : forall c f fs fd o,
  wf_config c = true ->
  length (a_stat (f_src f)) = nstats c -> length (a_stat (f_dst f)) = nstats c ->
  length (f_stat f) = nstats c -> length (o_stat o) = nstats c ->
  (fs || fd) = true -> prev_end (nd (reporter fd) f) o < o_end o ->
  let f' := spec_agg c f fs fd o in
  let latest := N.leb (f_end f) (o_end o) in
  let vals := agg_vals c f fd o in
  (forall n, a_end (nd n f') = if feeds n (fs, fd, o) then o_end o else a_end (nd n f)) /\
  (forall n, length (a_stat (nd n f')) = nstats c) /\ length (f_stat f') = nstats c /\
  (forall n i, (i < nstats c)%nat ->
     nth i (a_stat (nd n f')) 0 =
     new_node (feeds n (fs, fd, o)) (is_delta c i) (stat i o) (nth i (a_stat (nd n f)) 0)) /\
  (forall n, a_tp (nd n f') = spec_tp (feeds n (fs, fd, o)) vals (a_tp (nd n f))) /\
  f_end f' = (if latest then o_end o else f_end f) /\
  (forall i, (i < nstats c)%nat ->
     nth i (f_stat f') 0 =
     if latest then (if is_delta c i then nth i (a_stat (nd (reporter fd) f')) 0
                     else N.max (nth i (f_stat f) 0) (stat i o))
     else nth i (f_stat f) 0) /\
  f_tp f' = spec_tp latest vals (f_tp f).
Proof.
  intros c f fs fd o WF LS LD LC LO F LT.
  pose proof (wf_config_facts c WF) as W.
  assert (ND : NoDup (c_stats c)).
  { pose proof (wf_nd c W) as H. unfold all_names in H. eapply nodup_app_l. exact H. }
  assert (PV : (if fd then (if N.eqb (a_end (f_dst f)) 0 then o_start o else a_end (f_dst f))
                else if fs then (if N.eqb (a_end (f_src f)) 0 then o_start o else a_end (f_src f)) else 0)
               = prev_end (nd (reporter fd) f) o).
  { destruct fd; [reflexivity|]. destruct fs; [reflexivity|discriminate]. }
  set (rows := zip5 (map desc_of_name (c_stats c)) (o_stat o) (a_stat (f_src f)) (a_stat (f_dst f)) (f_stat f)).
  set (res := map (row_vals fs fd (N.leb (f_end f) (o_end o))) rows).
  assert (LR : length res = nstats c).
  { unfold res, rows. rewrite map_length, zip5_length; rewrite ?map_length; auto. }
  assert (NR : forall i, (i < nstats c)%nat ->
            nth i res (0, 0, 0) = row_vals fs fd (N.leb (f_end f) (o_end o))
              (desc_of_name (nth i (c_stats c) ""), stat i o, nth i (a_stat (f_src f)) 0,
               nth i (a_stat (f_dst f)) 0, nth i (f_stat f) 0)).
  { intros i Hi. unfold res.
    rewrite (nth_indep _ (0, 0, 0) (row_vals fs fd (N.leb (f_end f) (o_end o)) (desc_of_name "", 0, 0, 0, 0))) by (fold res; lia).
    rewrite (map_nth (row_vals fs fd (N.leb (f_end f) (o_end o)))). unfold rows. rewrite zip5_nth; rewrite ?map_length; auto.
    rewrite (map_nth desc_of_name). reflexivity. }
  assert (EQ : spec_agg c f fs fd o =
    {| f_src := {| a_end := if fs then o_end o else a_end (f_src f);
                   a_stat := map (fun x => fst (fst x)) res;
                   a_tp := spec_tp fs (agg_vals c f fd o) (a_tp (f_src f)) |};
       f_dst := {| a_end := if fd then o_end o else a_end (f_dst f);
                   a_stat := map (fun x => snd (fst x)) res;
                   a_tp := spec_tp fd (agg_vals c f fd o) (a_tp (f_dst f)) |};
       f_end := if N.leb (f_end f) (o_end o) then o_end o else f_end f;
       f_stat := map snd res;
       f_tp := spec_tp (N.leb (f_end f) (o_end o)) (agg_vals c f fd o) (f_tp f);
       f_reason := f_reason (spec_agg c f fs fd o); f_tcp := f_tcp (spec_agg c f fs fd o) |}).
  { unfold spec_agg. rewrite PV.
    assert (LE : N.leb (o_end o) (prev_end (nd (reporter fd) f) o) = false) by (apply N.leb_gt; exact LT).
    rewrite LE. rewrite (stat_triples_len c WF). fold rows. rewrite spec_stats_eq. fold res.
    unfold rows. rewrite acc_closed; rewrite ?map_length; auto.
    rewrite (proj2 (mem_In _ _) (wf_has_oct c W)), (proj2 (mem_In _ _) (wf_has_roct c W)).
    cbv iota beta. unfold agg_vals, oct_pos, roct_pos, stat, rep_vals.
    destruct fs, fd; try discriminate; reflexivity. }
  cbv zeta. rewrite EQ. cbn [f_src f_dst f_end f_stat f_tp].
  split; [intros []; reflexivity|].
  split; [intros []; cbn [nd f_src f_dst a_stat]; rewrite map_length; exact LR|].
  split; [rewrite map_length; exact LR|].
  split.
  { intros n i Hi. destruct n; cbn [nd f_src f_dst a_stat feeds fst snd].
    - rewrite (nth_map0 (fun x => fst (fst x))), (NR i Hi) by reflexivity; rewrite ?(NR i Hi), row_vals_named. reflexivity.
    - rewrite (nth_map0 (fun x => snd (fst x))), (NR i Hi) by reflexivity; rewrite ?(NR i Hi), row_vals_named. reflexivity. }
  split; [intros []; reflexivity|].
  split; [reflexivity|].
  split; [|reflexivity].
  intros i Hi. rewrite (nth_map0 snd), (NR i Hi) by reflexivity; rewrite ?(NR i Hi), row_vals_named. cbn [snd].
  destruct (N.leb (f_end f) (o_end o)); [|reflexivity].
  unfold is_delta. destruct (contains "Delta" (nth i (c_stats c) "")) eqn:ED; [|reflexivity].
  destruct fd; cbn [reporter nd f_src f_dst a_stat].
  - rewrite (nth_map0 (fun x => snd (fst x))), (NR i Hi) by reflexivity; rewrite ?(NR i Hi), row_vals_named. cbn [fst snd]. rewrite ED. reflexivity.
  - destruct fs; [|discriminate].
    rewrite (nth_map0 (fun x => fst (fst x))), (NR i Hi) by reflexivity; rewrite ?(NR i Hi), row_vals_named. cbn [fst snd]. rewrite ED. reflexivity.
Qed.

(* ================================================================ the first record and a reset, field by field *)
Lemma nth_map_N : forall (g : N -> N) l i, g 0 = 0 -> nth i (map g l) 0 = g (nth i l 0).
Proof.
  intros g l i H. transitivity (nth i (map g l) (g 0)); [f_equal; symmetry; exact H | apply map_nth].
Qed.

Lemma spec_create_facts : forall c fs fd o, o_start o < o_end o ->
  let f' := spec_create c fs fd o in
  let vals := [mul8 (o_oct o) / (o_end o - o_start o); mul8 (o_roct o) / (o_end o - o_start o)] in
  (forall n, a_end (nd n f') = if feeds n (fs, fd, o) then o_end o else 0) /\
  (forall n, length (a_stat (nd n f')) = length (o_stat o)) /\
  (forall n i, nth i (a_stat (nd n f')) 0 = if feeds n (fs, fd, o) then stat i o else 0) /\
  (forall n, a_tp (nd n f') = if feeds n (fs, fd, o) then vals else [0; 0]) /\
  f_end f' = o_end o /\ f_stat f' = o_stat o /\ f_tp f' = vals.
Proof.
  intros c fs fd o LT. cbv zeta. unfold spec_create.
  assert (E : N.ltb (o_start o) (o_end o) = true) by (apply N.ltb_lt; exact LT). rewrite E.
  cbn [f_src f_dst f_end f_stat f_tp].
  split; [intros []; reflexivity|].
  split; [intros []; cbn [nd f_src f_dst a_stat]; apply map_length|].
  split.
  { intros [] i; cbn [nd f_src f_dst a_stat feeds fst snd].
    - rewrite (nth_map_N (fun v => if fs then v else 0)) by (destruct fs; reflexivity). reflexivity.
    - rewrite (nth_map_N (fun v => if fd then v else 0)) by (destruct fd; reflexivity). reflexivity. }
  split; [intros []; reflexivity|].
  repeat split.
Qed.

Lemma zero_deltas_length : forall c l, length l = nstats c -> length (zero_deltas c l) = nstats c.
Proof. intros c l H. unfold zero_deltas. rewrite map_length, combine_length. unfold nstats in *. lia. Qed.
Lemma zero_deltas_nth : forall c l i, length l = nstats c -> (i < nstats c)%nat ->
  nth i (zero_deltas c l) 0 = if is_delta c i then 0 else nth i l 0.
Proof.
  intros c l i H Hi. unfold zero_deltas.
  transitivity (nth i (map (fun sv : string * N => if contains "Delta" (fst sv) then 0 else snd sv)
                           (combine (c_stats c) l))
                      ((fun sv : string * N => if contains "Delta" (fst sv) then 0 else snd sv) ("", 0))).
  { reflexivity. }
  rewrite (map_nth (fun sv : string * N => if contains "Delta" (fst sv) then 0 else snd sv)).
  rewrite combine_nth by (unfold nstats in H; congruence). reflexivity.
Qed.

(* ================================================================ how the closed forms move with one event *)
Lemma node_recs_snoc : forall n evs fs fd o,
  node_recs n (evs ++ [Rec fs fd o]) = if feeds n (fs, fd, o) then node_recs n evs ++ [o] else node_recs n evs.
Proof.
  intros. rewrite node_recs_app. unfold node_recs at 2. cbn [recs flat_map ev_rec app filter].
  destruct (feeds n (fs, fd, o)); cbn [map snd]; [reflexivity | apply app_nil_r].
Qed.
Lemma node_recs_reset : forall n evs, node_recs n (evs ++ [Reset]) = node_recs n evs.
Proof. intros. rewrite node_recs_app. apply app_nil_r. Qed.

Lemma node_tp_two : forall n evs, exists a b, node_tp n evs = [a; b].
Proof.
  intros. unfold node_tp. destruct (node_recs n (since_reset evs)); [eexists; eexists; reflexivity|].
  destruct (rev (node_recs n evs)); [eexists; eexists; reflexivity|].
  unfold tp_pair. eexists; eexists; reflexivity.
Qed.

Lemma node_tp_snoc : forall n evs fs fd o,
  node_tp n (evs ++ [Rec fs fd o]) =
  if feeds n (fs, fd, o) then tp_pair (last_opt (node_recs n evs)) o else node_tp n evs.
Proof.
  intros. unfold node_tp. rewrite since_reset_rec, !node_recs_snoc.
  destruct (feeds n (fs, fd, o)); [|reflexivity].
  rewrite rev_unit. destruct (node_recs n (since_reset evs)); reflexivity.
Qed.
Lemma node_tp_reset : forall n evs, node_tp n (evs ++ [Reset]) = [0; 0].
Proof. intros. unfold node_tp. rewrite since_reset_reset. reflexivity. Qed.

Lemma node_delta_snoc : forall n i evs fs fd o,
  node_delta n i (evs ++ [Rec fs fd o]) =
  if feeds n (fs, fd, o) then add64 (stat i o) (node_delta n i evs) else node_delta n i evs.
Proof.
  intros. unfold node_delta. rewrite since_reset_rec, node_recs_snoc.
  destruct (feeds n (fs, fd, o)); [|reflexivity].
  unfold col. rewrite map_app. cbn [map]. apply sum64_snoc.
Qed.
Lemma node_delta_reset : forall n i evs, node_delta n i (evs ++ [Reset]) = 0.
Proof. intros. unfold node_delta. rewrite since_reset_reset. reflexivity. Qed.

Lemma node_total_snoc : forall n i evs fs fd o,
  node_total n i (evs ++ [Rec fs fd o]) = if feeds n (fs, fd, o) then stat i o else node_total n i evs.
Proof.
  intros. unfold node_total. rewrite node_recs_snoc.
  destruct (feeds n (fs, fd, o)); [rewrite last_opt_snoc|]; reflexivity.
Qed.
Lemma node_end_snoc : forall n evs fs fd o,
  node_end n (evs ++ [Rec fs fd o]) = if feeds n (fs, fd, o) then o_end o else node_end n evs.
Proof.
  intros. unfold node_end. rewrite node_recs_snoc.
  destruct (feeds n (fs, fd, o)); [rewrite last_opt_snoc|]; reflexivity.
Qed.

(* ================================================================ what the contract says about the records so far *)
Lemma wf_recs : forall c evs, wf_events c evs = true -> forall x, In x (recs evs) ->
  o_start (snd x) < o_end (snd x) /\ (forall v, In v (o_stat (snd x)) -> v < W64) /\
  (fst (fst x) || snd (fst x)) = true.
Proof.
  intros c evs. induction evs as [|e evs IH] using rev_ind; intros WF x Hx; [contradiction|].
  rewrite wf_events_snoc in WF. apply andb_prop in WF. destruct WF as [W1 W2].
  rewrite recs_app in Hx. apply in_app_or in Hx. destruct Hx as [Hx|Hx]; [exact (IH W1 x Hx)|].
  destruct e as [fs fd o|]; [|contradiction]. destruct Hx as [Hx|[]]. subst x. cbn [snd fst].
  unfold ev_ok in W2.
  repeat (let X := fresh "E" in apply andb_prop in W2; destruct W2 as [W2 X]).
  split; [apply N.ltb_lt; assumption|]. split; [|assumption].
  intros v Hv. rewrite forallb_forall in E2. apply N.ltb_lt. apply E2. exact Hv.
Qed.

Lemma in_node_recs : forall n evs p, In p (node_recs n evs) -> exists x, In x (recs evs) /\ snd x = p.
Proof.
  intros n evs p H. unfold node_recs in H. apply in_map_iff in H. destruct H as (x & H1 & H2).
  apply filter_In in H2. exists x. split; [apply H2 | exact H1].
Qed.

Lemma since_reset_sub : forall evs x, In x (recs (since_reset evs)) -> In x (recs evs).
Proof.
  induction evs as [|e evs IH] using rev_ind; intros x H; [exact H|].
  destruct e as [fs fd o|].
  - rewrite since_reset_rec in H. rewrite recs_app in *. apply in_app_or in H. apply in_or_app.
    destruct H; [left; auto | right; assumption].
  - rewrite since_reset_reset in H. contradiction.
Qed.

(* a flow that needs no correlation: every record feeds both nodes, they are one stream *)
Lemma both_same_recs : forall (l : list frec), (forall y, In y l -> fst (fst y) && snd (fst y) = true) ->
  map snd (filter (feeds SrcNode) l) = map snd (filter (feeds DstNode) l).
Proof.
  induction l as [|y l IH]; intros H; [reflexivity|]. cbn [filter feeds].
  pose proof (H y (or_introl eq_refl)) as Hy. apply andb_prop in Hy. destruct Hy as [H1 H2].
  rewrite H1, H2. cbn [map]. f_equal. apply IH. intros z Hz. apply H. right. exact Hz.
Qed.
Lemma both_same : forall evs, (forall y, In y (recs evs) -> fst (fst y) && snd (fst y) = true) ->
  forall n, node_recs n evs = node_recs DstNode evs /\
            node_recs n (since_reset evs) = node_recs DstNode (since_reset evs).
Proof.
  intros evs H [|]; [|split; reflexivity]. unfold node_recs. split; apply both_same_recs; [exact H|].
  intros y Hy. apply H. apply since_reset_sub. exact Hy.
Qed.

(* ================================================================ the invariant: the spec state is the closed forms *)
Record closed (c : agg_config) (evs : list fev) (f : flow_abs) : Prop := {
  cl_len : forall n, length (a_stat (nd n f)) = nstats c;
  cl_lenc : length (f_stat f) = nstats c;
  cl_end : forall n, a_end (nd n f) = node_end n evs;
  cl_tot : forall n i, (i < nstats c)%nat -> is_delta c i = false ->
           nth i (a_stat (nd n f)) 0 = node_total n i evs;
  cl_del : forall n i, (i < nstats c)%nat -> is_delta c i = true ->
           nth i (a_stat (nd n f)) 0 = node_delta n i evs;
  cl_tp : forall n, a_tp (nd n f) = node_tp n evs;
  cl_fend : f_end f = maxl (map (fun x : frec => o_end (snd x)) (recs evs));
  cl_lat : exists x, latest evs = Some x /\ f_end f = o_end (snd x);
  cl_lnode : a_end (nd (latest_node evs) f) = f_end f;
  cl_cdel : forall i, (i < nstats c)%nat -> is_delta c i = true ->
            nth i (f_stat f) 0 = nth i (a_stat (nd (latest_node evs) f)) 0;
  cl_ctp : f_tp f = a_tp (nd (latest_node evs) f);
  cl_fr : maxl (map o_end (fronts evs)) = f_end f;
  cl_ctot : forall i, (i < nstats c)%nat -> is_delta c i = false ->
            nth i (f_stat f) 0 = maxl (col i (fronts evs));
  cl_mono : flow_mono c evs = true -> forall x, latest evs = Some x ->
            forall i, (i < nstats c)%nat -> is_delta c i = false -> nth i (f_stat f) 0 = stat i (snd x) }.

Lemma stat_range : forall o i, (forall v, In v (o_stat o) -> v < W64) -> stat i o < W64.
Proof.
  intros o i H. unfold stat. destruct (Nat.lt_ge_cases i (length (o_stat o))) as [L|L].
  - apply H. apply nth_In. exact L.
  - rewrite nth_overflow by exact L. reflexivity.
Qed.

Lemma mul8_sub0 : forall a, mul8 (a - 0) = mul8 a.
Proof. intros. rewrite N.sub_0_r. reflexivity. Qed.

Lemma feeds_reporter : forall fs fd o, (fs || fd) = true -> feeds (reporter fd) (fs, fd, o) = true.
Proof. intros [] [] o H; try discriminate; reflexivity. Qed.

Lemma closed_create : forall c evs fs fd o,
  recs evs = [] -> since_reset evs = [] ->
  ev_ok c evs (Rec fs fd o) = true -> obs_ok c o ->
  closed c (evs ++ [Rec fs fd o]) (spec_create c fs fd o).
Proof.
  intros c evs fs fd o RE SR OK (OL & OO & OR).
  unfold ev_ok in OK.
  repeat (let X := fresh "E" in apply andb_prop in OK; destruct OK as [OK X]).
  apply N.ltb_lt in E3.
  assert (RG : forall v, In v (o_stat o) -> v < W64).
  { intros v Hv. rewrite forallb_forall in E2. apply N.ltb_lt. apply E2. exact Hv. }
  destruct (spec_create_facts c fs fd o E3) as (A1 & A2 & A3 & A4 & A5 & A6 & A7).
  assert (NR : forall n, node_recs n evs = []) by (intros; unfold node_recs; rewrite RE; reflexivity).
  assert (NS : forall n, node_recs n (since_reset evs) = []) by (intros; rewrite SR; reflexivity).
  assert (LA : latest (evs ++ [Rec fs fd o]) = Some (fs, fd, o)).
  { rewrite latest_snoc. unfold latest. rewrite RE. reflexivity. }
  assert (LN : latest_node (evs ++ [Rec fs fd o]) = reporter fd).
  { unfold latest_node. rewrite LA. reflexivity. }
  assert (FR : fronts (evs ++ [Rec fs fd o]) = [o]).
  { rewrite fronts_snoc. unfold fronts. rewrite RE. cbn. destruct (o_end o); reflexivity. }
  assert (FD : feeds (reporter fd) (fs, fd, o) = true) by (apply feeds_reporter; exact OK).
  constructor.
  - intros n. rewrite A2. exact OL.
  - rewrite A6. exact OL.
  - intros n. rewrite A1, node_end_snoc. unfold node_end. rewrite NR. reflexivity.
  - intros n i Hi D. rewrite A3, node_total_snoc. unfold node_total. rewrite NR. reflexivity.
  - intros n i Hi D. rewrite A3, node_delta_snoc. unfold node_delta. rewrite NS. cbn [col map].
    rewrite sum64_nil. destruct (feeds n (fs, fd, o)); [|reflexivity].
    unfold add64. rewrite N.add_0_r. symmetry. apply N.mod_small. apply stat_range. exact RG.
  - intros n. rewrite A4, node_tp_snoc. destruct (feeds n (fs, fd, o)).
    + rewrite NR. cbn [last_opt rev hd_error]. unfold tp_pair. rewrite !mul8_sub0. reflexivity.
    + unfold node_tp. rewrite NS. reflexivity.
  - rewrite A5, recs_app, RE. cbn. lia.
  - exists (fs, fd, o). split; [exact LA | exact A5].
  - rewrite LN, A1, FD. symmetry. exact A5.
  - intros i Hi D. rewrite LN, A3, FD, A6. reflexivity.
  - rewrite LN, A4, FD. exact A7.
  - rewrite FR, A5. cbn. lia.
  - intros i Hi D. rewrite FR, A6. cbn. unfold stat. lia.
  - intros _ x Hx i Hi D. rewrite LA in Hx. inversion Hx. subst x. rewrite A6. reflexivity.
Qed.

Lemma closed_reset : forall c evs f, closed c evs f -> closed c (evs ++ [Reset]) (spec_reset c f).
Proof.
  intros c evs f C.
  assert (LN : latest_node (evs ++ [Reset]) = latest_node evs).
  { unfold latest_node. rewrite latest_reset. reflexivity. }
  assert (ST : forall n, a_stat (nd n (spec_reset c f)) = zero_deltas c (a_stat (nd n f))) by (intros []; reflexivity).
  assert (TP : forall n, a_tp (nd n (spec_reset c f)) = [0; 0]).
  { intros n. pose proof (cl_tp _ _ _ C n) as T. destruct (node_tp_two n evs) as (a & b & E).
    rewrite E in T. destruct n; cbn [nd] in T; cbn [nd spec_reset f_src f_dst reset_node a_tp];
      rewrite T; reflexivity. }
  assert (EN : forall n, a_end (nd n (spec_reset c f)) = a_end (nd n f)) by (intros []; reflexivity).
  constructor.
  - intros n. rewrite ST. apply zero_deltas_length. apply (cl_len _ _ _ C).
  - cbn [spec_reset f_stat]. apply zero_deltas_length. apply (cl_lenc _ _ _ C).
  - intros n. rewrite EN. unfold node_end. rewrite node_recs_reset. apply (cl_end _ _ _ C).
  - intros n i Hi D. rewrite ST, zero_deltas_nth, D by (try apply (cl_len _ _ _ C); assumption).
    unfold node_total. rewrite node_recs_reset. apply (cl_tot _ _ _ C); assumption.
  - intros n i Hi D. rewrite ST, zero_deltas_nth, D by (try apply (cl_len _ _ _ C); assumption).
    rewrite node_delta_reset. reflexivity.
  - intros n. rewrite TP, node_tp_reset. reflexivity.
  - cbn [spec_reset f_end]. rewrite recs_app. cbn [recs flat_map ev_rec]. rewrite app_nil_r. apply (cl_fend _ _ _ C).
  - rewrite latest_reset. apply (cl_lat _ _ _ C).
  - rewrite LN, EN. apply (cl_lnode _ _ _ C).
  - intros i Hi D. rewrite LN, ST. cbn [spec_reset f_stat].
    rewrite !zero_deltas_nth, D by (try apply (cl_len _ _ _ C); try apply (cl_lenc _ _ _ C); assumption).
    reflexivity.
  - rewrite LN, TP. cbn [spec_reset f_tp]. rewrite (cl_ctp _ _ _ C), (cl_tp _ _ _ C).
    destruct (node_tp_two (latest_node evs) evs) as (a & b & E). rewrite E. reflexivity.
  - rewrite fronts_reset. apply (cl_fr _ _ _ C).
  - intros i Hi D. rewrite fronts_reset. cbn [spec_reset f_stat].
    rewrite zero_deltas_nth, D by (try apply (cl_lenc _ _ _ C); assumption). apply (cl_ctot _ _ _ C); assumption.
  - intros M x Hx i Hi D. rewrite flow_mono_snoc in M. apply andb_prop in M. destruct M as [M _].
    rewrite latest_reset in Hx. cbn [spec_reset f_stat].
    rewrite zero_deltas_nth, D by (try apply (cl_lenc _ _ _ C); assumption).
    apply (cl_mono _ _ _ C M x Hx); assumption.
Qed.

(* ---------------------------------------------------------------- aggregateRecords on an existing flow *)
Lemma idx_facts : forall s l, In s l -> (idx s l < length l)%nat /\ nth (idx s l) l "" = s.
Proof.
  induction l as [|x l IH]; intros H; [contradiction|]. cbn [idx].
  destruct (String.eqb x s) eqn:E.
  - apply String.eqb_eq in E. subst. split; [simpl; lia | reflexivity].
  - destruct H as [H|H]; [subst; rewrite String.eqb_refl in E; discriminate|].
    destruct (IH H) as [I1 I2]. split; [simpl; lia | exact I2].
Qed.
Lemma oct_pos_facts : forall c, wf_config c = true ->
  (oct_pos c < nstats c)%nat /\ is_delta c (oct_pos c) = false /\
  (roct_pos c < nstats c)%nat /\ is_delta c (roct_pos c) = false.
Proof.
  intros c WF. pose proof (wf_config_facts c WF) as W.
  destruct (idx_facts _ _ (wf_has_oct c W)) as [A1 A2]. destruct (idx_facts _ _ (wf_has_roct c W)) as [B1 B2].
  unfold oct_pos, roct_pos, nstats, is_delta. rewrite A2, B2. repeat split; assumption.
Qed.

Lemma sub64_exact : forall a b, b <= a -> a < W64 -> sub64 a b = a - b.
Proof.
  intros a b H1 H2. unfold sub64. rewrite (N.mod_small a), (N.mod_small b) by lia.
  replace (a + W64 - b) with (a - b + 1 * W64) by lia. rewrite N.mod_add by exact W64_pos.
  apply N.mod_small. lia.
Qed.

Lemma totals_le_at : forall c p o i, totals_le c p o = true -> (i < nstats c)%nat -> is_delta c i = false ->
  stat i p <= stat i o.
Proof.
  intros c p o i H Hi D. unfold totals_le in H. rewrite forallb_forall in H.
  assert (IN : In i (seq 0 (nstats c))) by (apply in_seq; lia).
  apply H in IN. rewrite D in IN. cbn [orb] in IN. apply N.leb_le. exact IN.
Qed.

Section AggStep.
Variables (c : agg_config) (evs : list fev) (f0 : flow_abs) (fs fd : bool) (o : rec_obs).
Hypothesis WFC : wf_config c = true.
Hypothesis C : closed c evs f0.
Hypothesis WE : wf_events c evs = true.
Hypothesis OK : ev_ok c evs (Rec fs fd o) = true.
Hypothesis OB : obs_ok c o.
Hypothesis OBS : forall x, In x (recs evs) -> obs_ok c (snd x).

Local Notation x := (fs, fd, o).
Local Notation R := (reporter fd).

Lemma ag_parts :
  (fs || fd) = true /\ o_start o < o_end o /\ (forall v, In v (o_stat o) -> v < W64) /\
  (forall y, In y (recs evs) -> fst (fst y) && snd (fst y) = fs && fd) /\
  (forall n, node_ok c evs n x = true).
Proof.
  pose proof OK as H. unfold ev_ok in H.
  repeat (let X := fresh "E" in apply andb_prop in H; destruct H as [H X]).
  split; [exact H|]. split; [apply N.ltb_lt; exact E3|].
  split; [intros v Hv; rewrite forallb_forall in E2; apply N.ltb_lt; apply E2; exact Hv|].
  split; [intros y Hy; rewrite forallb_forall in E1; apply eqb_prop; apply E1; exact Hy|].
  intros []; assumption.
Qed.

Lemma ag_same_stream : forall n, feeds n x = true -> node_recs n evs = node_recs R evs.
Proof.
  destruct ag_parts as (_ & _ & _ & FL & _).
  intros n Hn. destruct n; cbn [feeds fst snd] in Hn.
  - subst fs. destruct fd; [|reflexivity]. cbn [reporter].
    apply (both_same evs); intros y Hy; rewrite (FL y Hy); reflexivity.
  - subst fd. reflexivity.
Qed.

Lemma ag_prev :
  prev_end (nd R f0) o = match last_opt (node_recs R evs) with Some p => o_end p | None => o_start o end /\
  prev_end (nd R f0) o < o_end o.
Proof.
  destruct ag_parts as (F & LT & _ & _ & NO).
  pose proof (NO R) as N1. unfold node_ok in N1.
  rewrite (feeds_reporter _ _ _ F) in N1.
  unfold prev_end. rewrite (cl_end _ _ _ C R). unfold node_end.
  destruct (last_opt (node_recs R evs)) as [p|] eqn:E.
  - apply andb_prop in N1. destruct N1 as [N1 _]. apply N.ltb_lt in N1. cbn [snd] in N1.
    apply last_opt_in in E. apply in_node_recs in E. destruct E as (y & Y1 & Y2).
    destruct (wf_recs c evs WE y Y1) as (P1 & _). rewrite Y2 in P1.
    assert (Z : N.eqb (o_end p) 0 = false) by (apply N.eqb_neq; lia). rewrite Z. split; [reflexivity | exact N1].
  - rewrite N.eqb_refl. split; [reflexivity | exact LT].
Qed.

Lemma ag_vals : agg_vals c f0 fd o = tp_pair (last_opt (node_recs R evs)) o.
Proof.
  destruct ag_parts as (F & LT & RG & _ & NO).
  destruct (oct_pos_facts c WFC) as (P1 & P2 & P3 & P4).
  destruct ag_prev as [PV _]. destruct OB as (OL & OO & OR).
  unfold agg_vals.  rewrite PV.
  rewrite (cl_tot _ _ _ C R _ P1 P2), (cl_tot _ _ _ C R _ P3 P4). unfold node_total, tp_pair.
  pose proof (NO R) as N1. unfold node_ok in N1.
  rewrite (feeds_reporter _ _ _ F) in N1.
  destruct (last_opt (node_recs R evs)) as [p|] eqn:E.
  - apply andb_prop in N1. destruct N1 as [_ N1]. cbn [snd] in N1.
    apply last_opt_in in E. apply in_node_recs in E. destruct E as (y & Y1 & Y2).
    destruct (OBS y Y1) as (_ & Q1 & Q2). rewrite Y2 in Q1, Q2.
    rewrite OO, OR, Q1, Q2.
    rewrite !sub64_exact; try (apply stat_range; exact RG); try (eapply totals_le_at; eassumption).
    reflexivity.
  - rewrite OO, OR. rewrite !sub64_exact; try (apply stat_range; exact RG); try lia. reflexivity.
Qed.

(* a record that does not carry the latest end time does not come from the latest reporter *)
Lemma ag_not_latest : N.leb (f_end f0) (o_end o) = false -> feeds (latest_node evs) x = false.
Proof.
  intros NL. apply N.leb_gt in NL. destruct ag_parts as (_ & _ & _ & _ & NO).
  destruct (feeds (latest_node evs) x) eqn:FE; [|reflexivity]. exfalso.
  pose proof (NO (latest_node evs)) as N1. unfold node_ok in N1. rewrite FE in N1.
  pose proof (cl_lnode _ _ _ C) as L1. rewrite (cl_end _ _ _ C) in L1. unfold node_end in L1.
  destruct (last_opt (node_recs (latest_node evs) evs)) as [p|].
  - apply andb_prop in N1. destruct N1 as [N1 _]. apply N.ltb_lt in N1. cbn [snd] in N1. lia.
  - lia.
Qed.

Lemma closed_agg : closed c (evs ++ [Rec fs fd o]) (spec_agg c f0 fs fd o).
Proof.
  destruct ag_parts as (F & LT & RG & FL & NO). destruct ag_prev as [PV PLT]. destruct OB as (OL & OO & OR).
  destruct (spec_agg_facts c f0 fs fd o WFC (cl_len _ _ _ C SrcNode) (cl_len _ _ _ C DstNode)
              (cl_lenc _ _ _ C) OL F PLT) as (A1 & A2 & A3 & A4 & A5 & A6 & A7 & A8).
  set (f := spec_agg c f0 fs fd o) in *.
  destruct (cl_lat _ _ _ C) as (y & LY & EY).
  assert (LA : latest (evs ++ [Rec fs fd o]) = if N.leb (f_end f0) (o_end o) then Some x else Some y).
  { rewrite latest_snoc, LY. unfold later. rewrite <- EY. reflexivity. }
  assert (LN : latest_node (evs ++ [Rec fs fd o]) = if N.leb (f_end f0) (o_end o) then R else latest_node evs).
  { unfold latest_node. rewrite LA, LY. destruct (N.leb (f_end f0) (o_end o)); reflexivity. }
  assert (FR : feeds R x = true) by (apply feeds_reporter; exact F).
  assert (TPF : forall n, a_tp (nd n f) = if feeds n x then agg_vals c f0 fd o else a_tp (nd n f0)).
  { intros n. rewrite A5.  rewrite (cl_tp _ _ _ C n).
    destruct (node_tp_two n evs) as (a & b & E). rewrite E. destruct (feeds n x); reflexivity. }
  constructor.
  - exact A2.
  - exact A3.
  - intros n. rewrite A1, node_end_snoc.  rewrite (cl_end _ _ _ C n). reflexivity.
  - intros n i Hi D. rewrite (A4 n i Hi), node_total_snoc, D.  unfold new_node.
    rewrite (cl_tot _ _ _ C n i Hi D). reflexivity.
  - intros n i Hi D. rewrite (A4 n i Hi), node_delta_snoc, D.  unfold new_node.
    rewrite (cl_del _ _ _ C n i Hi D). reflexivity.
  - intros n. rewrite TPF, node_tp_snoc.  destruct (feeds n x) eqn:FE.
    + rewrite ag_vals, (ag_same_stream n FE). reflexivity.
    + apply (cl_tp _ _ _ C n).
  - rewrite A6, recs_app, map_app. cbn [recs flat_map ev_rec app map snd]. rewrite maxl_snoc.
    rewrite <- (cl_fend _ _ _ C). destruct (N.leb_spec (f_end f0) (o_end o)); lia.
  - rewrite LA, A6. destruct (N.leb (f_end f0) (o_end o)).
    + exists x. split; reflexivity.
    + exists y. split; [reflexivity | exact EY].
  - rewrite LN, A6. destruct (N.leb (f_end f0) (o_end o)) eqn:LE.
    + rewrite A1.  rewrite FR. reflexivity.
    + rewrite A1.  rewrite (ag_not_latest LE). apply (cl_lnode _ _ _ C).
  - intros i Hi D. rewrite LN, (A7 i Hi), D. destruct (N.leb (f_end f0) (o_end o)) eqn:LE; [reflexivity|].
    rewrite (A4 _ i Hi).  rewrite (ag_not_latest LE). unfold new_node. apply (cl_cdel _ _ _ C); assumption.
  - rewrite LN, A8. rewrite (cl_ctp _ _ _ C), (cl_tp _ _ _ C).
    destruct (node_tp_two (latest_node evs) evs) as (a & b & E). rewrite E.
    destruct (N.leb (f_end f0) (o_end o)) eqn:LE.
    + rewrite TPF, FR. reflexivity.
    + rewrite TPF, (ag_not_latest LE), (cl_tp _ _ _ C), E. reflexivity.
  - rewrite fronts_snoc, (cl_fr _ _ _ C), A6. destruct (N.leb_spec (f_end f0) (o_end o)).
    + rewrite map_app. cbn [map]. rewrite maxl_snoc, (cl_fr _ _ _ C). lia.
    + apply (cl_fr _ _ _ C).
  - intros i Hi D. rewrite fronts_snoc, (cl_fr _ _ _ C), (A7 i Hi), D.
    destruct (N.leb (f_end f0) (o_end o)).
    + unfold col. rewrite map_app. cbn [map]. rewrite maxl_snoc. fold (col i (fronts evs)).
      rewrite <- (cl_ctot _ _ _ C i Hi D). reflexivity.
    + apply (cl_ctot _ _ _ C i Hi D).
  - intros M z Hz i Hi D. rewrite flow_mono_snoc in M. apply andb_prop in M. destruct M as [M1 M2].
    rewrite LA in Hz. rewrite (A7 i Hi), D. unfold mono_ok in M2. rewrite LY, <- EY in M2.
    pose proof (cl_mono _ _ _ C M1 y LY i Hi D) as IH.
    destruct (N.leb (f_end f0) (o_end o)).
    + inversion Hz. subst z. cbn [snd]. rewrite IH.
      pose proof (totals_le_at _ _ _ i M2 Hi D). lia.
    + inversion Hz. subst z. exact IH.
Qed.
End AggStep.

(* ================================================================ the invariant holds along every contract-abiding event list *)
Theorem closed_inv : forall c, wf_config c = true -> forall evs,
  wf_events c evs = true -> (forall x, In x (recs evs) -> obs_ok c (snd x)) ->
  forall f, spec_flow c evs = Some f -> closed c evs f.
Proof.
  intros c WFC evs. induction evs as [|e evs IH] using rev_ind; intros WE OBS f SF; [discriminate|].
  rewrite wf_events_snoc in WE. apply andb_prop in WE. destruct WE as [W1 W2].
  assert (OBS1 : forall x, In x (recs evs) -> obs_ok c (snd x)).
  { intros x Hx. apply OBS. rewrite recs_app. apply in_or_app. left. exact Hx. }
  rewrite spec_flow_snoc in SF. destruct (spec_flow c evs) as [f0|] eqn:E.
  - specialize (IH W1 OBS1 f0 eq_refl). destruct e as [fs fd o|]; cbn [spec_step] in SF; inversion SF; subst f.
    + apply closed_agg; try assumption. apply (OBS (fs, fd, o)). rewrite recs_app. apply in_or_app. right. left. reflexivity.
    + apply closed_reset. exact IH.
  - destruct e as [fs fd o|]; cbn [spec_step] in SF; [|discriminate]. inversion SF; subst f.
    destruct (spec_flow_none c evs E) as [R1 R2].
    apply closed_create; try assumption.
    apply (OBS (fs, fd, o)). rewrite recs_app. apply in_or_app. right. left. reflexivity.
Qed.

(* ================================================================ histories *)
Lemma events_of_app : forall c h1 h2 k, events_of c (h1 ++ h2) k = events_of c h1 k ++ events_of c h2 k.
Proof.
  intros c h1 h2 k. induction h1 as [|o h1 IH]; [reflexivity|]. cbn [app events_of].
  destruct o as [r|k0].
  - destruct (rec_key r) as [k'|]; [destruct (key_eqb k' k)|]; rewrite IH; reflexivity.
  - destruct (key_eqb k0 k); rewrite IH; reflexivity.
Qed.

Lemma obs_of_ok : forall c r, wf_config c = true -> obs_ok c (obs_of c r).
Proof.
  intros c r WF. pose proof (wf_config_facts c WF) as W.
  destruct (idx_facts _ _ (wf_has_oct c W)) as [A1 A2]. destruct (idx_facts _ _ (wf_has_roct c W)) as [B1 B2].
  unfold obs_ok, stat, oct_pos, roct_pos, obs_of, nstats. cbn [o_stat o_oct o_roct].
  split; [apply map_length|].
  split.
  - rewrite (nth_indep _ 0 (vu64 r "")) by (rewrite map_length; exact A1).
    rewrite (map_nth (vu64 r)), A2. reflexivity.
  - rewrite (nth_indep _ 0 (vu64 r "")) by (rewrite map_length; exact B1).
    rewrite (map_nth (vu64 r)), B2. reflexivity.
Qed.

Lemma events_obs_ok : forall c h k, wf_config c = true ->
  forall x, In x (recs (events_of c h k)) -> obs_ok c (snd x).
Proof.
  intros c h k WF. induction h as [|o h IH]; intros x Hx; [contradiction|]. cbn [events_of] in Hx.
  destruct o as [r|k0].
  - destruct (rec_key r) as [k'|]; [|exact (IH x Hx)]. destruct (key_eqb k' k); [|exact (IH x Hx)].
    destruct Hx as [Hx|Hx]; [|exact (IH x Hx)]. subst x. apply obs_of_ok. exact WF.
  - destruct (key_eqb k0 k); [|exact (IH x Hx)]. exact (IH x Hx).
Qed.

Lemma in_add_key : forall seen k' k, In k (add_key seen k') <-> In k seen \/ k = k'.
Proof.
  intros seen k' k. unfold add_key. destruct (existsb (key_eqb k') seen) eqn:E.
  - split; [left; assumption|]. intros [H|H]; [exact H|]. subst.
    apply existsb_exists in E. destruct E as (z & Z1 & Z2). apply key_eqb_eq in Z2. subst. exact Z1.
  - rewrite in_app_iff. cbn [In]. split; intros [H|H]; auto. destruct H as [H|[]]. right. symmetry. exact H.
Qed.

Lemma flow_keys_snoc : forall h o, flow_keys (h ++ [o]) =
  match o with
  | OpRec r => match rec_key r with Some k => add_key (flow_keys h) k | None => flow_keys h end
  | OpReset _ => flow_keys h
  end.
Proof. intros. unfold flow_keys. rewrite fold_left_app. reflexivity. Qed.

(* a 5-tuple is among the flow keys iff the history holds a record of it *)
Lemma flow_keys_in : forall c h k, In k (flow_keys h) <-> recs (events_of c h k) <> [].
Proof.
  intros c h k. induction h as [|o h IH] using rev_ind; [cbn; tauto|].
  rewrite flow_keys_snoc, events_of_app, recs_app. destruct o as [r|k0]; cbn [events_of].
  - destruct (rec_key r) as [k'|].
    + rewrite in_add_key, IH. destruct (key_eqb k' k) eqn:E.
      * apply key_eqb_eq in E. subst k'. cbn [recs flat_map ev_rec app].
        split; [intros _ H; apply app_eq_nil in H; destruct H; discriminate | intros _; right; reflexivity].
      * apply key_eqb_neq in E. cbn [recs flat_map]. rewrite app_nil_r.
        split; [intros [H|H]; [exact H | congruence] | intros H; left; exact H].
    + cbn [recs flat_map]. rewrite app_nil_r. exact IH.
  - destruct (key_eqb k0 k); cbn [recs flat_map ev_rec app]; rewrite app_nil_r; exact IH.
Qed.

Lemma no_recs_wf : forall c evs, recs evs = [] -> wf_events c evs = true.
Proof.
  intros c evs. induction evs as [|e evs IH] using rev_ind; intros H; [reflexivity|].
  rewrite recs_app in H. apply app_eq_nil in H. destruct H as [H1 H2].
  rewrite wf_events_snoc, (IH H1). destruct e; [discriminate | reflexivity].
Qed.

Lemma wf_history_events : forall c h k, wf_history c h = true -> wf_events c (events_of c h k) = true.
Proof.
  intros c h k H. unfold wf_history in H. apply andb_prop in H. destruct H as [_ H].
  unfold contract_history in H. rewrite forallb_forall in H.
  destruct (recs (events_of c h k)) eqn:E.
  - apply no_recs_wf. exact E.
  - apply H. apply (flow_keys_in c). rewrite E. discriminate.
Qed.
Lemma wf_history_typed : forall c h, wf_history c h = true -> typed_history c h = true.
Proof. intros c h H. unfold wf_history in H. apply andb_prop in H. apply H. Qed.

(* the closed forms hold of the aggregated record of every flow of a contract-abiding history *)
Theorem history_closed : forall c h k f,
  wf_config c = true -> wf_history c h = true ->
  absf c (lookup (run c h) k) = Some f -> closed c (events_of c h k) f.
Proof.
  intros c h k f WF WH A.
  rewrite (aggregation_refinement c h k WF (wf_history_typed c h WH)) in A.
  apply (closed_inv c WF (events_of c h k) (wf_history_events c h k WH) (events_obs_ok c h k WF) f A).
Qed.

(* ================================================================ exactly one flow record per distinct 5-tuple *)
Definition keys (m : flows) : list key := map fst m.
Definition upd_shape (m m' : flows) (k : key) : Prop := m' = m \/ exists fl, m' = update m k fl.

Lemma lift_status_shape : forall A m (o : ares A) (kk : A -> flows * status) k,
  (forall a, upd_shape m (fst (kk a)) k) -> upd_shape m (fst (lift_status m o kk)) k.
Proof. intros A m o kk k H. destruct o; cbn [lift_status fst]; try (left; reflexivity). apply H. Qed.
Lemma agg_into_shape : forall c m k fl r fs fd, upd_shape m (fst (agg_into c m k fl r fs fd)) k.
Proof.
  intros. unfold agg_into. destruct (aggregate_records c r (fl_rec fl) fs fd); cbn [fst];
    try (left; reflexivity); right; eexists; reflexivity.
Qed.
Lemma add_or_update_shape : forall c m k r v4, upd_shape m (fst (add_or_update c m k r v4)) k.
Proof.
  intros. unfold add_or_update.
  apply lift_status_shape. intros ft. apply lift_status_shape. intros corr.
  destruct (lookup m k) as [fl|].
  - destruct corr; [|apply agg_into_shape].
    apply lift_status_shape. intros need. apply lift_status_shape. intros fl1.
    apply lift_status_shape. intros src. apply agg_into_shape.
  - apply lift_status_shape. intros src. apply lift_status_shape. intros r2.
    cbn [fst]. right. eexists. reflexivity.
Qed.
Lemma step_shape : forall c m o, fst (step c m o) = m \/ exists k fl, fst (step c m o) = update m k fl.
Proof.
  intros c m [r|k]; cbn [step].
  - destruct (flow_key_of r) as [kv| | |]; cbn [lift_status fst]; try (left; reflexivity).
    destruct (add_or_update_shape c m (fst kv) r (snd kv)) as [H|[fl H]]; [left; exact H|].
    right. exists (fst kv), fl. exact H.
  - unfold reset_flow. destruct (lookup m k) as [fl|]; [|left; reflexivity].
    destruct (reset_stats c (fl_rec fl)); cbn [fst]; try (left; reflexivity); right; eexists; eexists; reflexivity.
Qed.

Lemma keys_update : forall m k f,
  keys (update m k f) = match lookup m k with Some _ => keys m | None => keys m ++ [k] end.
Proof.
  induction m as [|[k' f'] m IH]; intros k f; [reflexivity|]. cbn [update lookup].
  destruct (key_eqb k' k); [reflexivity|]. cbn [keys map fst]. fold (keys (update m k f)) (keys m).
  rewrite IH. destruct (lookup m k); reflexivity.
Qed.
Lemma lookup_in_keys : forall m k, lookup m k <> None <-> In k (keys m).
Proof.
  induction m as [|[k' f'] m IH]; intros k; cbn [lookup keys map fst In]; [tauto|].
  destruct (key_eqb k' k) eqn:E.
  - apply key_eqb_eq in E. subst. split; [intros _; left; reflexivity | intros _; discriminate].
  - apply key_eqb_neq in E. fold (keys m). rewrite IH. split; [intros H; right; exact H | intros [H|H]; [contradiction | exact H]].
Qed.
Lemma nodup_snoc : forall (l : list key) k, NoDup l -> ~ In k l -> NoDup (l ++ [k]).
Proof.
  intros l k H1 H2. apply (Permutation_NoDup (Permutation_cons_append l k)). constructor; assumption.
Qed.

Lemma run_snoc : forall c h o, run c (h ++ [o]) = fst (step c (run c h) o).
Proof. intros. unfold run. rewrite fold_left_app. reflexivity. Qed.

Lemma run_keys_nodup : forall c h, NoDup (keys (run c h)).
Proof.
  intros c h. induction h as [|o h IH] using rev_ind; [constructor|].
  rewrite run_snoc. destruct (step_shape c (run c h) o) as [H|(k & fl & H)]; rewrite H; [exact IH|].
  rewrite keys_update. destruct (lookup (run c h) k) eqn:E; [exact IH|].
  apply nodup_snoc; [exact IH|]. intro HI. apply lookup_in_keys in HI. contradiction.
Qed.
Lemma flow_keys_nodup : forall h, NoDup (flow_keys h).
Proof.
  induction h as [|o h IH] using rev_ind; [constructor|]. rewrite flow_keys_snoc.
  destruct o as [r|k0]; [|exact IH]. destruct (rec_key r) as [k|]; [|exact IH].
  unfold add_key. destruct (existsb (key_eqb k) (flow_keys h)) eqn:E; [exact IH|].
  apply nodup_snoc; [exact IH|]. intro HI.
  assert (X : existsb (key_eqb k) (flow_keys h) = true).
  { apply existsb_exists. exists k. split; [exact HI | apply key_eqb_refl]. }
  congruence.
Qed.

(* a flow record exists for k iff the history holds a record with 5-tuple k *)
Theorem flow_exists_iff : forall c h k, wf_config c = true -> typed_history c h = true ->
  (lookup (run c h) k <> None <-> In k (flow_keys h)).
Proof.
  intros c h k WF TY. rewrite (flow_keys_in c).
  pose proof (aggregation_refinement c h k WF TY) as R.
  split.
  - intros H E. apply spec_flow_some with (c := c) in E. rewrite E in R.
    destruct (lookup (run c h) k); [discriminate | contradiction].
  - intros H E. rewrite E in R. cbn in R. symmetry in R. apply spec_flow_none in R. destruct R. contradiction.
Qed.

Theorem flow_count : forall c h, wf_config c = true -> typed_history c h = true ->
  length (run c h) = length (flow_keys h).
Proof.
  intros c h WF TY. rewrite <- (map_length fst (run c h)). fold (keys (run c h)).
  apply Permutation_length. apply NoDup_Permutation; [apply run_keys_nodup | apply flow_keys_nodup|].
  intros k. rewrite <- lookup_in_keys. apply flow_exists_iff; assumption.
Qed.

(* ================================================================ resets in a history *)
Lemma typed_from_reset : forall c h seen k, typed_from c seen (h ++ [OpReset k]) = typed_from c seen h.
Proof.
  intros c h. induction h as [|o h IH]; intros seen k; [reflexivity|]. cbn [app typed_from].
  destruct o as [r|k0]; [|apply IH].
  destruct (typed_shape c (shape r)); [|reflexivity]. cbn [andb].
  destruct (rec_key r) as [k1|]; [|reflexivity].
  destruct (lookup_shape seen k1); rewrite IH; reflexivity.
Qed.
Lemma typed_history_reset : forall c h k, typed_history c (h ++ [OpReset k]) = typed_history c h.
Proof. intros. apply typed_from_reset. Qed.

(* a reset of flow k is spec_reset on its abstraction *)
Theorem reset_refines_history : forall c h k, wf_config c = true -> typed_history c h = true ->
  absf c (lookup (run c (h ++ [OpReset k])) k) = option_map (spec_reset c) (absf c (lookup (run c h) k)).
Proof.
  intros c h k WF TY.
  assert (TY' : typed_history c (h ++ [OpReset k]) = true) by (rewrite typed_history_reset; exact TY).
  rewrite (aggregation_refinement c _ k WF TY'), (aggregation_refinement c h k WF TY).
  rewrite events_of_app. cbn [events_of]. rewrite key_eqb_refl. rewrite spec_flow_snoc.
  destruct (spec_flow c (events_of c h k)); reflexivity.
Qed.

Definition no_reset_of (k : key) (h : list op) : bool :=
  forallb (fun o => match o with OpReset k' => negb (key_eqb k' k) | OpRec _ => true end) h.
Lemma since_reset_all_recs : forall evs1 evs2, (forall e, In e evs2 -> e <> Reset) ->
  since_reset (evs1 ++ Reset :: evs2) = evs2.
Proof.
  intros evs1 evs2. induction evs2 as [|e evs2 IH] using rev_ind; intros H.
  - apply since_reset_reset.
  - assert (H1 : forall e0, In e0 evs2 -> e0 <> Reset) by (intros e0 He; apply H; apply in_or_app; left; exact He).
    assert (H2 : e <> Reset) by (apply H; apply in_or_app; right; left; reflexivity).
    change (evs1 ++ Reset :: evs2 ++ [e]) with (evs1 ++ (Reset :: evs2) ++ [e]). rewrite app_assoc.
    destruct e as [fs fd o|]; [|congruence]. rewrite since_reset_rec, (IH H1). reflexivity.
Qed.
Lemma events_no_reset : forall c h k, no_reset_of k h = true -> forall e, In e (events_of c h k) -> e <> Reset.
Proof.
  intros c h k. induction h as [|o h IH]; intros H e He; [contradiction|].
  cbn [no_reset_of forallb] in H. apply andb_prop in H. destruct H as [H1 H2]. cbn [events_of] in He.
  destruct o as [r|k0].
  - destruct (rec_key r) as [k'|]; [|exact (IH H2 e He)]. destruct (key_eqb k' k); [|exact (IH H2 e He)].
    destruct He as [He|He]; [subst; discriminate | exact (IH H2 e He)].
  - apply negb_true_iff in H1. rewrite H1 in He. exact (IH H2 e He).
Qed.
Lemma since_reset_history : forall c h1 h2 k, no_reset_of k h2 = true ->
  since_reset (events_of c (h1 ++ OpReset k :: h2) k) = events_of c h2 k.
Proof.
  intros c h1 h2 k H. rewrite events_of_app. cbn [events_of]. rewrite key_eqb_refl.
  apply since_reset_all_recs. apply events_no_reset. exact H.
Qed.

(* how the per-node throughput closed form reads on the node's record list *)
Lemma node_tp_first : forall n evs o, node_recs n evs = [o] -> node_recs n (since_reset evs) <> [] ->
  node_tp n evs = [mul8 (o_oct o) / (o_end o - o_start o); mul8 (o_roct o) / (o_end o - o_start o)].
Proof.
  intros n evs o H1 H2. unfold node_tp. rewrite H1. destruct (node_recs n (since_reset evs)); [contradiction|].
  cbn [rev app hd_error]. unfold tp_pair. rewrite !mul8_sub0. reflexivity.
Qed.
Lemma node_tp_next : forall n evs l p o, node_recs n evs = l ++ [p; o] -> node_recs n (since_reset evs) <> [] ->
  node_tp n evs = [mul8 (o_oct o - o_oct p) / (o_end o - o_end p); mul8 (o_roct o - o_roct p) / (o_end o - o_end p)].
Proof.
  intros n evs l p o H1 H2. unfold node_tp. rewrite H1. destruct (node_recs n (since_reset evs)); [contradiction|].
  change (l ++ [p; o]) with (l ++ [p] ++ [o]). rewrite app_assoc, !rev_unit. reflexivity.
Qed.
Lemma node_tp_cleared : forall n evs, node_recs n (since_reset evs) = [] -> node_tp n evs = [0; 0].
Proof. intros n evs H. unfold node_tp. rewrite H. reflexivity. Qed.

(* the record with the latest end time carries the maximum of all end times *)
Definition ends (evs : list fev) : list N := map (fun x : frec => o_end (snd x)) (recs evs).
