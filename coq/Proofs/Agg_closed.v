(* C05: the exporter contract (wf_history) and the closed forms of the aggregation arithmetic.

   Everything here is derived from spec_step (Proofs/Agg_spec.v) alone: pure list / N reasoning,
   no record-level reasoning.  Proofs/C05_lemmas.v combines these closed forms with the
   refinement theorem (Agg_lemmas.aggregation_refinement). *)
From Coq Require Import List Bool Arith NArith ZArith String Lia Permutation.
From Coq Require Import ZifyN ZifyNat ZifyBool.
From Verif.Model Require Import Agg.
From Verif.Proofs Require Import Agg_spec Agg_lemmas.
Import ListNotations.
Local Open Scope string_scope.
Local Open Scope N_scope.
Local Open Scope list_scope.
Local Notation length := List.length.

(* ---------------------------------------------------------------- the records of a flow *)
Definition frec := (bool * bool * rec_obs)%type.        (* feeds source fields, feeds destination fields, values *)
Definition ev_rec (e : fev) : list frec := match e with Rec fs fd o => [(fs, fd, o)] | Reset => [] end.
Definition recs (evs : list fev) : list frec := flat_map ev_rec evs.

Inductive node := SrcNode | DstNode.
Definition feeds (n : node) (x : frec) : bool :=
  match n with SrcNode => fst (fst x) | DstNode => snd (fst x) end.
Definition nd (n : node) (f : flow_abs) : node_acc :=
  match n with SrcNode => f_src f | DstNode => f_dst f end.

(* the records that node n reported (a flow that needs no correlation is one reporting stream
   that feeds both nodes' fields) *)
Definition node_recs (n : node) (evs : list fev) : list rec_obs := map snd (filter (feeds n) (recs evs)).
(* the events after the last reset *)
Definition since_reset (evs : list fev) : list fev :=
  fold_left (fun acc e => match e with Reset => [] | Rec _ _ _ => acc ++ [e] end) evs [].

Definition last_opt {A} (l : list A) : option A := hd_error (rev l).

(* positions in StatsElements *)
Definition nstats (c : agg_config) : nat := length (c_stats c).
Definition is_delta (c : agg_config) (i : nat) : bool := contains "Delta" (nth i (c_stats c) "").
Fixpoint idx (n : string) (l : list string) : nat :=
  match l with
  | [] => O
  | x :: t => if String.eqb x n then O else S (idx n t)
  end.
Definition oct_pos (c : agg_config) : nat := idx "octetTotalCount" (c_stats c).
Definition roct_pos (c : agg_config) : nat := idx "reverseOctetTotalCount" (c_stats c).
Definition stat (i : nat) (o : rec_obs) : N := nth i (o_stat o) 0.
Definition col (i : nat) (l : list rec_obs) : list N := map (stat i) l.

Definition sum64 (l : list N) : N := fold_right N.add 0 l mod W64.
Definition maxl (l : list N) : N := fold_right N.max 0 l.

(* ---------------------------------------------------------------- closed forms, per reporting node *)
Definition node_end (n : node) (evs : list fev) : N :=
  match last_opt (node_recs n evs) with Some p => o_end p | None => 0 end.
(* a total counter: the value of the node's latest record *)
Definition node_total (n : node) (i : nat) (evs : list fev) : N :=
  match last_opt (node_recs n evs) with Some p => stat i p | None => 0 end.
(* a delta counter: the sum over the node's records since the last reset, mod 2^64 *)
Definition node_delta (n : node) (i : nat) (evs : list fev) : N :=
  sum64 (col i (node_recs n (since_reset evs))).
(* throughput of record o after the node's previous record prev (none: measured from the flow start) *)
Definition tp_pair (prev : option rec_obs) (o : rec_obs) : list N :=
  let pe := match prev with Some p => o_end p | None => o_start o end in
  let po := match prev with Some p => o_oct p | None => 0 end in
  let pr := match prev with Some p => o_roct p | None => 0 end in
  [mul8 (o_oct o - po) / (o_end o - pe); mul8 (o_roct o - pr) / (o_end o - pe)].
Definition node_tp (n : node) (evs : list fev) : list N :=
  match node_recs n (since_reset evs) with
  | [] => [0; 0]
  | _ :: _ => match rev (node_recs n evs) with
              | o :: rest => tp_pair (hd_error rest) o
              | [] => [0; 0]
              end
  end.

(* ---------------------------------------------------------------- the latest reporter *)
(* the record with the latest end time; among equal end times the one that arrived last
   (the code tests incoming >= existing) *)
Definition later (cur : option frec) (x : frec) : option frec :=
  match cur with
  | Some y => if N.leb (o_end (snd y)) (o_end (snd x)) then Some x else cur
  | None => Some x
  end.
Definition latest (evs : list fev) : option frec := fold_left later (recs evs) None.
Definition node_of (x : frec) : node := if snd (fst x) then DstNode else SrcNode.
Definition latest_node (evs : list fev) : node :=
  match latest evs with Some x => node_of x | None => SrcNode end.
(* the records that carried the latest end time when they arrived *)
Definition fronts (evs : list fev) : list rec_obs :=
  fold_left (fun acc x => if N.leb (maxl (map o_end acc)) (o_end (snd x)) then acc ++ [snd x] else acc)
            (recs evs) [].

(* ---------------------------------------------------------------- the exporter contract *)
Definition totals_le (c : agg_config) (p o : rec_obs) : bool :=
  forallb (fun i => is_delta c i || N.leb (stat i p) (stat i o)) (seq 0 (nstats c)).
(* per reporting node: end times strictly increase, totals do not decrease *)
Definition node_ok (c : agg_config) (pre : list fev) (n : node) (x : frec) : bool :=
  if feeds n x then
    match last_opt (node_recs n pre) with
    | Some p => N.ltb (o_end p) (o_end (snd x)) && totals_le c p (snd x)
    | None => true
    end
  else true.
(* one event after the events pre of the same flow: end > start, counters are uint64, the flow's
   correlation requirement is the same as for every earlier record, per-node monotonicity *)
Definition ev_ok (c : agg_config) (pre : list fev) (e : fev) : bool :=
  match e with
  | Reset => true
  | Rec fs fd o =>
      (fs || fd) && N.ltb (o_start o) (o_end o) && forallb (fun v => N.ltb v W64) (o_stat o) &&
      forallb (fun y : frec => Bool.eqb (fst (fst y) && snd (fst y)) (fs && fd)) (recs pre) &&
      node_ok c pre SrcNode (fs, fd, o) && node_ok c pre DstNode (fs, fd, o)
  end.
Fixpoint wf_from (c : agg_config) (pre evs : list fev) : bool :=
  match evs with
  | [] => true
  | e :: t => ev_ok c pre e && wf_from c (pre ++ [e]) t
  end.
Definition wf_events (c : agg_config) (evs : list fev) : bool := wf_from c [] evs.

(* flow-level precondition of "common total = latest value": along the records that carry the
   latest end time on arrival, totals do not decrease *)
Definition mono_ok (c : agg_config) (pre : list fev) (e : fev) : bool :=
  match e with
  | Reset => true
  | Rec fs fd o =>
      match latest pre with
      | Some y => if N.leb (o_end (snd y)) (o_end o) then totals_le c (snd y) o else true
      | None => true
      end
  end.
Fixpoint mono_from (c : agg_config) (pre evs : list fev) : bool :=
  match evs with
  | [] => true
  | e :: t => mono_ok c pre e && mono_from c (pre ++ [e]) t
  end.
Definition flow_mono (c : agg_config) (evs : list fev) : bool := mono_from c [] evs.

(* histories: every flow's events satisfy the contract *)
Definition op_key (o : op) : option key :=
  match o with OpRec r => rec_key r | OpReset k => Some k end.
Definition add_key (seen : list key) (k : key) : list key :=
  if existsb (key_eqb k) seen then seen else seen ++ [k].
(* the distinct 5-tuples of the records of a history, in order of first appearance *)
Definition flow_keys (h : list op) : list key :=
  fold_left (fun seen o => match o with
                           | OpRec r => match rec_key r with Some k => add_key seen k | None => seen end
                           | OpReset _ => seen
                           end) h [].
Definition contract_history (c : agg_config) (h : list op) : bool :=
  forallb (fun k => wf_events c (events_of c h k)) (flow_keys h).
Definition wf_history (c : agg_config) (h : list op) : bool :=
  typed_history c h && contract_history c h.
Definition flow_mono_history (c : agg_config) (h : list op) (k : key) : bool :=
  flow_mono c (events_of c h k).

(* what obs_of guarantees *)
Definition obs_ok (c : agg_config) (o : rec_obs) : Prop :=
  length (o_stat o) = nstats c /\ o_oct o = stat (oct_pos c) o /\ o_roct o = stat (roct_pos c) o.

(* ================================================================ list helpers *)
Lemma recs_app : forall a b, recs (a ++ b) = recs a ++ recs b.
Proof. intros. unfold recs. apply flat_map_app. Qed.
Lemma node_recs_app : forall n a b, node_recs n (a ++ b) = node_recs n a ++ node_recs n b.
Proof. intros. unfold node_recs. rewrite recs_app, filter_app, map_app. reflexivity. Qed.
Lemma last_opt_snoc : forall A (l : list A) x, last_opt (l ++ [x]) = Some x.
Proof. intros. unfold last_opt. rewrite rev_unit. reflexivity. Qed.
Lemma last_opt_nil : forall A, @last_opt A [] = None.
Proof. reflexivity. Qed.
Lemma last_opt_in : forall A (l : list A) x, last_opt l = Some x -> In x l.
Proof.
  intros A l x H. unfold last_opt in H. apply in_rev. destruct (rev l); simpl in H; [discriminate|].
  inversion H. left. reflexivity.
Qed.
Lemma since_reset_rec : forall evs fs fd o,
  since_reset (evs ++ [Rec fs fd o]) = since_reset evs ++ [Rec fs fd o].
Proof. intros. unfold since_reset. rewrite fold_left_app. reflexivity. Qed.
Lemma since_reset_reset : forall evs, since_reset (evs ++ [Reset]) = [].
Proof. intros. unfold since_reset. rewrite fold_left_app. reflexivity. Qed.
Lemma latest_snoc : forall evs fs fd o, latest (evs ++ [Rec fs fd o]) = later (latest evs) (fs, fd, o).
Proof. intros. unfold latest. rewrite recs_app, fold_left_app. reflexivity. Qed.
Lemma latest_reset : forall evs, latest (evs ++ [Reset]) = latest evs.
Proof. intros. unfold latest. rewrite recs_app. simpl. rewrite app_nil_r. reflexivity. Qed.
Lemma fronts_snoc : forall evs fs fd o,
  fronts (evs ++ [Rec fs fd o]) =
  if N.leb (maxl (map o_end (fronts evs))) (o_end o) then fronts evs ++ [o] else fronts evs.
Proof. intros. unfold fronts. rewrite recs_app, fold_left_app. reflexivity. Qed.
Lemma fronts_reset : forall evs, fronts (evs ++ [Reset]) = fronts evs.
Proof. intros. unfold fronts. rewrite recs_app. simpl. rewrite app_nil_r. reflexivity. Qed.

Lemma maxl_snoc : forall l x, maxl (l ++ [x]) = N.max (maxl l) x.
Proof. induction l; intros; simpl; [lia|]. rewrite IHl. lia. Qed.
Lemma maxl_ge : forall l x, In x l -> x <= maxl l.
Proof. induction l; simpl; intros x H; [contradiction|]. destruct H; [subst; lia|]. apply IHl in H. lia. Qed.
Lemma sum_snoc : forall l x, fold_right N.add 0 (l ++ [x]) = fold_right N.add 0 l + x.
Proof. induction l; intros; simpl; [lia|]. rewrite IHl. lia. Qed.
Lemma W64_pos : W64 <> 0.
Proof. unfold W64. discriminate. Qed.
Lemma sum64_snoc : forall l x, sum64 (l ++ [x]) = add64 x (sum64 l).
Proof.
  intros. unfold sum64, add64. rewrite sum_snoc. rewrite N.add_mod_idemp_r by exact W64_pos.
  f_equal. lia.
Qed.
Lemma sum64_nil : sum64 [] = 0.
Proof. reflexivity. Qed.

Lemma wf_from_snoc : forall c evs pre e,
  wf_from c pre (evs ++ [e]) = wf_from c pre evs && ev_ok c (pre ++ evs) e.
Proof.
  induction evs; intros; simpl.
  - rewrite app_nil_r, andb_true_r. reflexivity.
  - rewrite IHevs. rewrite <- app_assoc. simpl. rewrite andb_assoc. reflexivity.
Qed.
Lemma wf_events_snoc : forall c evs e, wf_events c (evs ++ [e]) = wf_events c evs && ev_ok c evs e.
Proof. intros. unfold wf_events. rewrite wf_from_snoc. reflexivity. Qed.
Lemma mono_from_snoc : forall c evs pre e,
  mono_from c pre (evs ++ [e]) = mono_from c pre evs && mono_ok c (pre ++ evs) e.
Proof.
  induction evs; intros; simpl.
  - rewrite app_nil_r, andb_true_r. reflexivity.
  - rewrite IHevs. rewrite <- app_assoc. simpl. rewrite andb_assoc. reflexivity.
Qed.
Lemma flow_mono_snoc : forall c evs e, flow_mono c (evs ++ [e]) = flow_mono c evs && mono_ok c evs e.
Proof. intros. unfold flow_mono. rewrite mono_from_snoc. reflexivity. Qed.

Lemma spec_flow_snoc : forall c evs e, spec_flow c (evs ++ [e]) = spec_step c (spec_flow c evs) e.
Proof. intros. unfold spec_flow. rewrite fold_left_app. reflexivity. Qed.

(* no flow record yet <-> only resets so far *)
Lemma spec_flow_none : forall c evs, spec_flow c evs = None -> recs evs = [] /\ since_reset evs = [].
Proof.
  intros c evs. induction evs as [|e evs IH] using rev_ind; intro H; [split; reflexivity|].
  rewrite spec_flow_snoc in H. destruct e as [fs fd o|].
  - destruct (spec_flow c evs); discriminate.
  - destruct (spec_flow c evs) eqn:E; [discriminate|]. destruct (IH eq_refl) as [I1 I2].
    rewrite recs_app, I1, since_reset_reset. split; reflexivity.
Qed.
Lemma spec_flow_some : forall c evs, recs evs = [] -> spec_flow c evs = None.
Proof.
  intros c evs. induction evs as [|e evs IH] using rev_ind; intro H; [reflexivity|].
  rewrite recs_app in H. apply app_eq_nil in H. destruct H as [H1 H2].
  rewrite spec_flow_snoc, (IH H1). destruct e; [discriminate|reflexivity].
Qed.

(* nth helpers *)
Lemma zip5_length : forall (ds : list sdesc) (iv av bv cv : list N),
  length iv = length ds -> length av = length ds -> length bv = length ds -> length cv = length ds ->
  length (zip5 ds iv av bv cv) = length ds.
Proof.
  induction ds; intros [|? iv] [|? av] [|? bv] [|? cv]; simpl; intros; try discriminate; try reflexivity.
  f_equal. apply IHds; congruence.
Qed.
Lemma zip5_nth : forall (ds : list sdesc) (iv av bv cv : list N) i dd,
  length iv = length ds -> length av = length ds -> length bv = length ds -> length cv = length ds ->
  (i < length ds)%nat ->
  nth i (zip5 ds iv av bv cv) (dd, 0, 0, 0, 0) = (nth i ds dd, nth i iv 0, nth i av 0, nth i bv 0, nth i cv 0).
Proof.
  induction ds; intros [|? iv] [|? av] [|? bv] [|? cv] i dd; simpl; intros; try discriminate; try lia.
  destruct i; [reflexivity|]. apply IHds; try congruence. lia.
Qed.

(* ================================================================ the statistics loop, row by row *)
Definition row_vals (fs fd latest : bool) (row : srow) : N * N * N :=
  let '(d, iv, av, bv, cv) := row in
  let a' := if fs then (if d_delta d then add64 iv av else iv) else av in
  let b' := if fd then (if d_delta d then add64 iv bv else iv) else bv in
  let c' := if latest then
              (if d_delta d then (if fd then b' else if fs then a' else cv) else N.max cv iv)
            else cv in
  (a', b', c').
Definition row_acc (fs fd : bool) (acc : N * N) (row : srow) : N * N :=
  let '(d, iv, av, bv, cv) := row in
  let acc1 := if fs && negb (d_delta d)
              then (if d_os d then (sub64 iv av, snd acc) else if d_rs d then (fst acc, sub64 iv av) else acc)
              else acc in
  if fd && negb (d_delta d)
  then (if d_od d then (sub64 iv bv, snd acc1) else if d_rd d then (fst acc1, sub64 iv bv) else acc1)
  else acc1.

Lemma row_step_eq : forall fs fd latest row acc,
  row_step fs fd latest row acc = (row_vals fs fd latest row, row_acc fs fd acc row).
Proof.
  intros fs fd latest [[[[d iv] av] bv] cv] [x y]. unfold row_step, row_vals, row_acc, node_upd.
  assert (M : (if N.ltb cv iv then iv else cv) = N.max cv iv).
  { destruct (N.ltb_spec cv iv); lia. }
  destruct d as [dl os rs od rd]. cbn [d_delta d_os d_rs d_od d_rd].
  destruct fs, fd, latest, dl; cbn [negb andb fst snd]; rewrite ?M;
    try reflexivity; destruct os, rs, od, rd; reflexivity.
Qed.

Lemma spec_stats_eq : forall fs fd latest rows acc,
  spec_stats fs fd latest rows acc =
  (map (row_vals fs fd latest) rows, fold_left (row_acc fs fd) rows acc).
Proof.
  intros fs fd latest. induction rows as [|row rows IH]; intros acc; [reflexivity|].
  cbn [spec_stats]. rewrite row_step_eq. rewrite IH. reflexivity.
Qed.

(* descriptors as a function of the StatsElements name alone (wf_config: the per-node names of
   the two octet totals are exactly the four names the code dispatches on) *)
Definition desc_of_name (s : string) : sdesc :=
  {| d_delta := contains "Delta" s;
     d_os := String.eqb s "octetTotalCount"; d_rs := String.eqb s "reverseOctetTotalCount";
     d_od := String.eqb s "octetTotalCount"; d_rd := String.eqb s "reverseOctetTotalCount" |}.

Lemma descs_by_name : forall (S A B : list string),
  length A = length S -> length B = length S ->
  forallb octet_names_ok (zip3 S A B) = true ->
  map sdesc_of (zip3 S A B) = map desc_of_name S.
Proof.
  induction S as [|s S IH]; intros [|a A] [|b B]; simpl; intros HA HB H; try discriminate; [reflexivity|].
  apply andb_prop in H. destruct H as [H1 H2]. rewrite IH by congruence. f_equal.
  unfold desc_of_name.
  repeat (let X := fresh "E" in apply andb_prop in H1; destruct H1 as [H1 X]).
  apply eqb_prop in H1, E, E0, E1. rewrite <- H1, <- E1, <- E0, <- E. reflexivity.
Qed.

(* the accumulator of the loop: growth of the two octet totals of the reporting node *)
Definition rep_vals (fd : bool) (av bv : list N) : list N := if fd then bv else av.

Lemma row_acc_oct : forall fs fd x y i a b c0, (fs || fd) = true ->
  row_acc fs fd (x, y) (desc_of_name "octetTotalCount", i, a, b, c0) = (sub64 i (if fd then b else a), y).
Proof. intros [] [] x y i a b c0 F; try discriminate; reflexivity. Qed.
Lemma row_acc_roct : forall fs fd x y i a b c0, (fs || fd) = true ->
  row_acc fs fd (x, y) (desc_of_name "reverseOctetTotalCount", i, a, b, c0) = (x, sub64 i (if fd then b else a)).
Proof. intros [] [] x y i a b c0 F; try discriminate; reflexivity. Qed.
Lemma row_acc_other : forall fs fd x y s i a b c0,
  String.eqb s "octetTotalCount" = false -> String.eqb s "reverseOctetTotalCount" = false ->
  row_acc fs fd (x, y) (desc_of_name s, i, a, b, c0) = (x, y).
Proof.
  intros fs fd x y s i a b c0 E1 E2. unfold row_acc. cbn [desc_of_name d_delta d_os d_rs d_od d_rd].
  rewrite E1, E2. destruct (fs && negb (contains "Delta" s)), (fd && negb (contains "Delta" s)); reflexivity.
Qed.

Lemma acc_closed : forall fs fd (S : list string) (iv av bv cv : list N) x y,
  (fs || fd) = true -> NoDup S ->
  length iv = length S -> length av = length S -> length bv = length S -> length cv = length S ->
  fold_left (row_acc fs fd) (zip5 (map desc_of_name S) iv av bv cv) (x, y) =
  ((if mem "octetTotalCount" S
    then sub64 (nth (idx "octetTotalCount" S) iv 0) (nth (idx "octetTotalCount" S) (rep_vals fd av bv) 0)
    else x),
   (if mem "reverseOctetTotalCount" S
    then sub64 (nth (idx "reverseOctetTotalCount" S) iv 0) (nth (idx "reverseOctetTotalCount" S) (rep_vals fd av bv) 0)
    else y)).
Proof.
  intros fs fd S. induction S as [|s S IH]; intros [|i iv] [|a av] [|b bv] [|c0 cv] x y F ND;
    cbn [length]; intros; try discriminate; [reflexivity|].
  inversion ND as [|? ? NI ND']; subst.
  assert (NM : mem s S = false).
  { unfold mem. destruct (existsb (String.eqb s) S) eqn:E; [|reflexivity].
    apply existsb_exists in E. destruct E as (z & Z1 & Z2). apply String.eqb_eq in Z2. subst. contradiction. }
  cbn [map zip5 fold_left]. unfold mem. cbn [existsb idx]. fold (mem "octetTotalCount" S) (mem "reverseOctetTotalCount" S).
  destruct (String.eqb s "octetTotalCount") eqn:E1.
  - apply String.eqb_eq in E1. subst s. rewrite row_acc_oct by assumption.
    rewrite IH by (try assumption; congruence). rewrite NM. cbn. destruct fd; reflexivity.
  - destruct (String.eqb s "reverseOctetTotalCount") eqn:E2.
    + apply String.eqb_eq in E2. subst s. rewrite row_acc_roct by assumption.
      rewrite IH by (try assumption; congruence). rewrite NM. cbn. destruct fd; reflexivity.
    + rewrite row_acc_other by assumption.
      rewrite (String.eqb_sym "octetTotalCount" s), (String.eqb_sym "reverseOctetTotalCount" s), E1, E2.
      cbn [orb]. rewrite IH by (try assumption; congruence). destruct fd; reflexivity.
Qed.

(* ================================================================ one aggregateRecords step, field by field *)
Definition new_node (on delta : bool) (iv av : N) : N :=
  if on then (if delta then add64 iv av else iv) else av.
Definition reporter (fd : bool) : node := if fd then DstNode else SrcNode.
Definition prev_end (a : node_acc) (o : rec_obs) : N := if N.eqb (a_end a) 0 then o_start o else a_end a.
Definition agg_vals (c : agg_config) (f : flow_abs) (fd : bool) (o : rec_obs) : list N :=
  let r := nd (reporter fd) f in
  let diff := o_end o - prev_end r o in
  [mul8 (sub64 (stat (oct_pos c) o) (nth (oct_pos c) (a_stat r) 0)) / diff;
   mul8 (sub64 (stat (roct_pos c) o) (nth (roct_pos c) (a_stat r) 0)) / diff].

Lemma row_vals_named : forall fs fd latest s iv av bv cv,
  row_vals fs fd latest (desc_of_name s, iv, av, bv, cv) =
  (new_node fs (contains "Delta" s) iv av, new_node fd (contains "Delta" s) iv bv,
   if latest then
     (if contains "Delta" s
      then (if fd then new_node fd (contains "Delta" s) iv bv
            else if fs then new_node fs (contains "Delta" s) iv av else cv)
      else N.max cv iv)
   else cv).
Proof. intros. reflexivity. Qed.

Lemma stat_triples_len : forall c, wf_config c = true ->
  map sdesc_of (stat_triples c) = map desc_of_name (c_stats c).
Proof.
  intros c WF. pose proof (wf_config_facts c WF) as W. unfold stat_triples.
  apply descs_by_name; [apply (wf_len_src c W) | apply (wf_len_dst c W)|].
  apply forallb_forall. exact (wf_oct c W).
Qed.

Lemma nth_map0 : forall (g : N * N * N -> N) l i, g (0, 0, 0) = 0 ->
  nth i (map g l) 0 = g (nth i l (0, 0, 0)).
Proof.
  intros g l i H. transitivity (nth i (map g l) (g (0, 0, 0))); [f_equal; symmetry; exact H | apply map_nth].
Qed.

Lemma spec_agg_facts : forall c f fs fd o,
  wf_config c = true ->
  length (a_stat (f_src f)) = nstats c -> length (a_stat (f_dst f)) = nstats c ->
  length (f_stat f) = nstats c -> length (o_stat o) = nstats c ->
  (fs || fd) = true -> prev_end (nd (reporter fd) f) o < o_end o ->
  let f' := spec_agg c f fs fd o in
  let latest := N.leb (f_end f) (o_end o) in
  let vals := agg_vals c f fd o in
  (forall n, a_end (nd n f') = if feeds n (fs, fd, o) then o_end o else a_end (nd n f)) /\
  (forall n, length (a_stat (nd n f')) = nstats c) /\ length (f_stat f') = nstats c /\
  (forall n i, (i < nstats c)%nat ->
     nth i (a_stat (nd n f')) 0 =
     new_node (feeds n (fs, fd, o)) (is_delta c i) (stat i o) (nth i (a_stat (nd n f)) 0)) /\
  (forall n, a_tp (nd n f') = spec_tp (feeds n (fs, fd, o)) vals (a_tp (nd n f))) /\
  f_end f' = (if latest then o_end o else f_end f) /\
  (forall i, (i < nstats c)%nat ->
     nth i (f_stat f') 0 =
     if latest then (if is_delta c i then nth i (a_stat (nd (reporter fd) f')) 0
                     else N.max (nth i (f_stat f) 0) (stat i o))
     else nth i (f_stat f) 0) /\
  f_tp f' = spec_tp latest vals (f_tp f).
Proof.
  intros c f fs fd o WF LS LD LC LO F LT.
  pose proof (wf_config_facts c WF) as W.
  assert (ND : NoDup (c_stats c)).
  { pose proof (wf_nd c W) as H. unfold all_names in H. eapply nodup_app_l. exact H. }
  assert (PV : (if fd then (if N.eqb (a_end (f_dst f)) 0 then o_start o else a_end (f_dst f))
                else if fs then (if N.eqb (a_end (f_src f)) 0 then o_start o else a_end (f_src f)) else 0)
               = prev_end (nd (reporter fd) f) o).
  { destruct fd; [reflexivity|]. destruct fs; [reflexivity|discriminate]. }
  set (rows := zip5 (map desc_of_name (c_stats c)) (o_stat o) (a_stat (f_src f)) (a_stat (f_dst f)) (f_stat f)).
  set (res := map (row_vals fs fd (N.leb (f_end f) (o_end o))) rows).
  assert (LR : length res = nstats c).
  { unfold res, rows. rewrite map_length, zip5_length; rewrite ?map_length; auto. }
  assert (NR : forall i, (i < nstats c)%nat ->
            nth i res (0, 0, 0) = row_vals fs fd (N.leb (f_end f) (o_end o))
              (desc_of_name (nth i (c_stats c) ""), stat i o, nth i (a_stat (f_src f)) 0,
               nth i (a_stat (f_dst f)) 0, nth i (f_stat f) 0)).
  { intros i Hi. unfold res.
    rewrite (nth_indep _ (0, 0, 0) (row_vals fs fd (N.leb (f_end f) (o_end o)) (desc_of_name "", 0, 0, 0, 0))) by (fold res; lia).
    rewrite (map_nth (row_vals fs fd (N.leb (f_end f) (o_end o)))). unfold rows. rewrite zip5_nth; rewrite ?map_length; auto.
    rewrite (map_nth desc_of_name). reflexivity. }
  assert (EQ : spec_agg c f fs fd o =
    {| f_src := {| a_end := if fs then o_end o else a_end (f_src f);
                   a_stat := map (fun x => fst (fst x)) res;
                   a_tp := spec_tp fs (agg_vals c f fd o) (a_tp (f_src f)) |};
       f_dst := {| a_end := if fd then o_end o else a_end (f_dst f);
                   a_stat := map (fun x => snd (fst x)) res;
                   a_tp := spec_tp fd (agg_vals c f fd o) (a_tp (f_dst f)) |};
       f_end := if N.leb (f_end f) (o_end o) then o_end o else f_end f;
       f_stat := map snd res;
       f_tp := spec_tp (N.leb (f_end f) (o_end o)) (agg_vals c f fd o) (f_tp f);
       f_reason := f_reason (spec_agg c f fs fd o); f_tcp := f_tcp (spec_agg c f fs fd o) |}).
  { unfold spec_agg. rewrite PV.
    assert (LE : N.leb (o_end o) (prev_end (nd (reporter fd) f) o) = false) by (apply N.leb_gt; exact LT).
    rewrite LE. rewrite (stat_triples_len c WF). fold rows. rewrite spec_stats_eq. fold res.
    unfold rows. rewrite acc_closed; rewrite ?map_length; auto.
    rewrite (proj2 (mem_In _ _) (wf_has_oct c W)), (proj2 (mem_In _ _) (wf_has_roct c W)).
    cbv iota beta. unfold agg_vals, oct_pos, roct_pos, stat, rep_vals.
    destruct fs, fd; try discriminate; reflexivity. }
  cbv zeta. rewrite EQ. cbn [f_src f_dst f_end f_stat f_tp].
  split; [intros []; reflexivity|].
  split; [intros []; cbn [nd f_src f_dst a_stat]; rewrite map_length; exact LR|].
  split; [rewrite map_length; exact LR|].
  split.
  { intros n i Hi. destruct n; cbn [nd f_src f_dst a_stat feeds fst snd].
    - rewrite (nth_map0 (fun x => fst (fst x))), (NR i Hi) by reflexivity; rewrite ?(NR i Hi), row_vals_named. reflexivity.
    - rewrite (nth_map0 (fun x => snd (fst x))), (NR i Hi) by reflexivity; rewrite ?(NR i Hi), row_vals_named. reflexivity. }
  split; [intros []; reflexivity|].
  split; [reflexivity|].
  split; [|reflexivity].
  intros i Hi. rewrite (nth_map0 snd), (NR i Hi) by reflexivity; rewrite ?(NR i Hi), row_vals_named. cbn [snd].
  destruct (N.leb (f_end f) (o_end o)); [|reflexivity].
  unfold is_delta. destruct (contains "Delta" (nth i (c_stats c) "")) eqn:ED; [|reflexivity].
  destruct fd; cbn [reporter nd f_src f_dst a_stat].
  - rewrite (nth_map0 (fun x => snd (fst x))), (NR i Hi) by reflexivity; rewrite ?(NR i Hi), row_vals_named. cbn [fst snd]. rewrite ED. reflexivity.
  - destruct fs; [|discriminate].
    rewrite (nth_map0 (fun x => fst (fst x))), (NR i Hi) by reflexivity; rewrite ?(NR i Hi), row_vals_named. cbn [fst snd]. rewrite ED. reflexivity.
Qed.
