From Coq Require Import List Bool Arith NArith ZArith Lia String.
From Coq.Strings Require Import Byte.
From Verif.Base Require Import Bytes Outcome Str.
From Verif.Gen Require Import Consts.
From Verif.Model Require Import IE Codec Decode Templates.
From Verif.Proofs Require Import Bytes_lemmas Codec_lemmas Decode_lemmas Templates_lemmas C03_lemmas.
From Verif.Driver Require Import Show C15drv DecShow C03drv C04drv.
Import ListNotations.
Local Open Scope N_scope.

Lemma spec_packet_with_ext lk1 lk2 m reg bytes :
  (forall d i, lk1 d i = lk2 d i) -> spec_packet_with lk1 m reg bytes = spec_packet_with lk2 m reg bytes.
Proof.
  intros E. unfold spec_packet_with, spec_packet_data_with. now rewrite E.
Qed.

Lemma C04_holds_hist_model m reg pkts : forall tm hrev,
  reg_safe reg = true -> tm_safe tm -> (forall d i, tm_lookup tm d i = last_valid hrev d i) ->
  C04_holds_hist m reg hrev pkts (map fst (model_hist4 m reg tm pkts)) = true.
Proof.
  induction pkts as [|p ps IH]; intros tm hrev R S L; cbn [model_hist4 map C04_holds_hist]; [reflexivity|].
  pose proof (C03_holds_on_model m reg tm p S) as H.
  pose proof (step_safe m reg tm p R S) as S'.
  assert (L' : forall d i, tm_lookup (step m reg tm p) d i = last_valid (classify m reg p :: hrev) d i).
  { intros d i. rewrite step_classify, lookup_apply, L.
    destruct (classify m reg p); reflexivity. }
  unfold step in *.
  destruct (decode_packet m reg tm p) as [o tm'] eqn:D. cbn [fst snd map] in *.
  cbn [C04_holds_hist].
  unfold C04_holds_on. unfold C03_holds_on, spec_packet in H.
  rewrite <- (spec_packet_with_ext _ _ m reg p L). rewrite H. cbn [andb].
  now apply IH.
Qed.

Lemma C04_oracle_lemma m pkts :
  C04_holds_hist m registry [] pkts (map fst (model_hist4 m registry [] pkts)) = true.
Proof.
  apply C04_holds_hist_model; [apply registry_safe|apply tm_safe_nil|].
  intros d i. reflexivity.
Qed.

(* the combined statement of the property *)
Lemma C04_template_scope_lemma m reg hist :
  (forall d i, tm_lookup (run m reg hist) d i = spec_lookup m reg hist d i) /\
  (forall bytes, hdr_ok bytes = true -> N.eqb (wire_setid bytes) c_entities_TemplateSetID = false ->
     fst (decode_packet m reg (run m reg hist) bytes) =
     match spec_lookup m reg hist (wire_obs bytes) (wire_setid bytes) with
     | None => Err ErrNoTemplate
     | Some tpl => omap (DataMsg (wire_hdr bytes) (wire_setid bytes))
                        (decode_data_body (keep_of m) tpl (wire_body bytes))
     end).
Proof.
  split.
  - intros d i. apply lookup_last_valid.
  - intros bytes H T. rewrite (data_packet_uses_lookup m reg _ bytes H T). cbn [fst].
    now rewrite lookup_last_valid.
Qed.

(* a template set that fails after its record header was read removes the older template *)
Lemma bad_template_invalidates_lemma m reg hist bytes :
  classify m reg bytes = TplBadAfterHdr (wire_obs bytes) (wire_tid bytes) ->
  spec_lookup m reg (hist ++ [bytes]) (wire_obs bytes) (wire_tid bytes) = None /\
  (forall data, hdr_ok data = true -> wire_obs data = wire_obs bytes -> wire_setid data = wire_tid bytes ->
     N.eqb (wire_setid data) c_entities_TemplateSetID = false ->
     fst (decode_packet m reg (run m reg (hist ++ [bytes])) data) = Err ErrNoTemplate).
Proof.
  intros C.
  assert (E : spec_lookup m reg (hist ++ [bytes]) (wire_obs bytes) (wire_tid bytes) = None).
  { unfold spec_lookup. rewrite map_app, rev_app_distr. cbn [map rev app]. rewrite C.
    cbn [last_valid]. now rewrite !N.eqb_refl. }
  split; [exact E|].
  intros data H Ho Hi T. rewrite (data_packet_uses_lookup m reg _ data H T). cbn [fst].
  now rewrite lookup_last_valid, Ho, Hi, E.
Qed.
