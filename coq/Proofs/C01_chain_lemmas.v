(* C01, histories: the composed model of a CHAIN of exchanges against one collector
   (Driver/C01drv.v: chain_model) equals the specification observation (chain_spec) for every
   chain inside the hypotheses (chain_hyp) - any number of exchanges, any number of data sets
   and records per exchange, redefinitions of an (observation domain, template id) included,
   all transports (chain_oracle).
   Structure: (1) send_all: every data set of an exchange is accepted by SendSet whatever the
   sequence counter, and writes a data message of the specified length; (2) collect_tm on
   [template message; data messages..] from ANY template table delivers the template and then
   every data set decoded with THAT template, and leaves the table with (domain, id) bound to
   it; (3) induction over the exchanges with the collector's table generalised. *)
From Coq Require Import List Bool Arith NArith ZArith Lia String.
From Coq Require Import ZifyN ZifyNat ZifyBool.
From Coq.Strings Require Import Byte.
From Verif.Base Require Import Bytes Outcome Str.
From Verif.Gen Require Import Consts.
From Verif.Model Require Import IE Codec Record SetB Msg Decode E2E.
From Verif.Model Require Exporter.
From Verif.Proofs Require Import Bytes_lemmas Codec_lemmas SetB_lemmas Exporter_lemmas Decode_lemmas Decode_roundtrip E2E_lemmas C01_lemmas.
From Verif.Driver Require Import Show C15drv C01single C01drv.
Import ListNotations.
Local Open Scope N_scope.
Local Notation length := List.length.

(* ---- strings ---- *)
Lemma sapp_assoc (a b c : string) : ((a ++ b) ++ c)%string = (a ++ (b ++ c))%string.
Proof. induction a as [|ch a IH]; cbn [String.append]; [reflexivity|now rewrite IH]. Qed.

Lemma sapp_nil_r (a : string) : (a ++ "")%string = a.
Proof. induction a as [|ch a IH]; cbn [String.append]; [reflexivity|now rewrite IH]. Qed.

Lemma sconcat_cons (x : string) (l : list string) :
  String.concat "" (x :: l) = (x ++ String.concat "" l)%string.
Proof.
  destruct l as [|y l]; cbn [String.concat].
  - now rewrite sapp_nil_r.
  - reflexivity.
Qed.

(* ---- SendSet of a data set, from any value of the sequence counter ---- *)
Lemma data_send_from (obs : N) (udp : bool) (q0 tid : N) (tpl : list ie) (m : N) (recs : list (list (ie * value))) :
  tpl_ok tpl = true -> recs_ok tpl recs = true -> 256 <= tid < 65536 ->
  m <= N.of_nat (min_record_len tpl) ->
  spec_len_data recs <= (if udp then 65507 else 65535) ->
  exists db q,
    data_msg obs q 0 tid recs = Ok db /\ blen db = spec_len_data recs /\
    Exporter.send_set Exporter.cur (Exporter.mkExp obs q0 [(tid, (tpl, m))] udp) (data_set0 tid recs) 0 =
    Exporter.mkSent (Exporter.mkExp obs q [(tid, (tpl, m))] udp) (Ok (blen db)) (Some db).
Proof.
  intros TO RO Htid Bm Hsz.
  set (q := u32 (q0 + u32 (N.of_nat (length (s_rrecs (data_set0 tid recs)))))).
  assert (HI : SetB_lemmas.Inv (SetB.run new_set (data_ops tid recs))) by (apply Inv_run, Inv_new).
  assert (AB : all_buffers_ok (SetB.run new_set (data_ops tid recs))).
  { unfold all_buffers_ok. rewrite s_recs_rev, data_set_shape. cbn [s_rrecs]. rewrite rev_involutive.
    eapply data_buffers_ok; eassumption. }
  pose proof (create_msg_spec _ obs q 0 HI AB) as CM.
  assert (SL : 16 + s_len (SetB.run new_set (data_ops tid recs)) = spec_len_data recs).
  { rewrite data_set_shape. cbn [s_len]. unfold spec_len_data.
    change (fun r a => data_len_v1 r + a) with (fun r a => record_len r + a). lia. }
  change msg_hdr_len with 16 in CM. change max_msg with 65535 in CM. rewrite SL in CM.
  destruct (N.ltb_spec 65535 (spec_len_data recs)) as [C|_]; [destruct udp; lia|].
  match type of CM with _ = Ok ?x => set (db := x) in * end.
  fold (data_msg obs q 0 tid recs) in CM.
  destruct (create_msg_ok_shape _ _ _ _ _ HI CM) as (_ & Bl & _). rewrite SL in Bl.
  exists db, q. repeat split; try assumption.
  rewrite (send_data_ok (Exporter.mkExp obs q0 [(tid, (tpl, m))] udp) (data_set0 tid recs) 0 db).
  - reflexivity.
  - rewrite data_set0_shape. reflexivity.
  - cbn [Exporter.x_tpls]. apply check_set_ok; [lia|assumption|assumption].
  - cbn [Exporter.x_obs Exporter.x_seq]. rewrite data_set0_upd. exact CM.
  - cbn [Exporter.x_udp]. unfold Exporter.write_ok, Exporter.max_udp_payload.
    destruct udp; [|reflexivity]. apply N.leb_le. lia.
Qed.

(* db is a data message the exporter lays out for recs (some sequence number), of the
   specified length *)
Definition dmsg_of (obs tid : N) (recs : list (list (ie * value))) (db : list byte) : Prop :=
  exists q, data_msg obs q 0 tid recs = Ok db /\ blen db = spec_len_data recs.

(* (1) every data set of the exchange is accepted and written, whatever the counter *)
Lemma send_all_ok (obs : N) (udp : bool) (tid : N) (tpl : list ie) (m : N) :
  tpl_ok tpl = true -> 256 <= tid < 65536 -> m <= N.of_nat (min_record_len tpl) ->
  forall ds q0,
    forallb (recs_ok tpl) ds = true ->
    forallb (fun recs => spec_len_data recs <=? (if udp then 65507 else 65535)) ds = true ->
    exists dbs,
      send_all (Exporter.mkExp obs q0 [(tid, (tpl, m))] udp) tid ds =
        (map (fun recs => Ok (spec_len_data recs)) ds, dbs) /\
      Forall2 (dmsg_of obs tid) ds dbs.
Proof.
  intros TO Htid Bm. induction ds as [|recs ds IH]; intros q0 RO SZ.
  - exists []. split; [reflexivity|constructor].
  - cbn [forallb] in RO, SZ. apply andb_true_iff in RO as [RO1 RO2]. apply andb_true_iff in SZ as [SZ1 SZ2].
    apply N.leb_le in SZ1.
    destruct (data_send_from obs udp q0 tid tpl m recs TO RO1 Htid Bm SZ1) as (db & q & Hd & Bd & S).
    destruct (IH q RO2 SZ2) as (dbs & E & F).
    exists (db :: dbs). split.
    + cbn [send_all]. fold (data_set0 tid recs). rewrite S.
      cbn [Exporter.r_st Exporter.r_res Exporter.r_wire]. rewrite E, Bd. reflexivity.
    + constructor; [|exact F]. exists q. split; assumption.
Qed.

Lemma dmsgs_small (obs tid L : N) : forall ds dbs,
  Forall2 (dmsg_of obs tid) ds dbs ->
  forallb (fun recs => spec_len_data recs <=? L) ds = true ->
  Forall (fun w => blen w <= L) dbs.
Proof.
  induction 1 as [|recs db ds dbs (q & _ & Bd) F IH]; intros SZ; [constructor|].
  cbn [forallb] in SZ. apply andb_true_iff in SZ as [SZ1 SZ2]. apply N.leb_le in SZ1.
  constructor; [rewrite Bd; exact SZ1|exact (IH SZ2)].
Qed.

(* ---- (2) the collector on one connection's messages, from any template table ---- *)
Lemma collect_data (stream : bool) (obs tid : N) (tpl : list ie) :
  tpl_ok tpl = true -> 256 <= tid < 65536 -> obs < 4294967296 ->
  forall ds dbs tm,
    Forall2 (dmsg_of obs tid) ds dbs -> forallb (recs_ok tpl) ds = true ->
    tm_lookup tm obs tid = Some tpl ->
    exists ms,
      collect_tm stream tm dbs = (ms, tm) /\ length ms = length ds /\
      map show_delivered ms =
      map (fun recs => show_delivered (DataMsg (mkHdr 0 0 0 obs) tid (map norm_rec recs))) ds.
Proof.
  intros TO Htid Hobs ds dbs tm F. induction F as [|recs db ds dbs (q & Hd & _) F IH]; intros RO LK.
  - exists []. repeat split; reflexivity.
  - cbn [forallb] in RO. apply andb_true_iff in RO as [RO1 RO2].
    assert (LK' : tm_lookup tm (obs mod 4294967296) tid = Some tpl) by (rewrite N.mod_small by assumption; exact LK).
    destruct (IH RO2 LK) as (ms & E & L & M).
    cbn [collect_tm]. rewrite (e2e_data obs q 0 tid tpl recs db tm TO RO1 Htid Hd LK'). rewrite E.
    eexists. split; [reflexivity|]. split.
    + cbn [length]. now rewrite L.
    + cbn [map]. rewrite M. f_equal.
      unfold show_delivered. cbn [h_obs]. rewrite N.mod_small by assumption. reflexivity.
Qed.

Lemma collect_exchange (stream : bool) (obs tid : N) (tpl : list ie) ds tb dbs tm :
  tpl_ok tpl = true -> 256 <= tid < 65536 -> obs < 4294967296 ->
  forallb (recs_ok tpl) ds = true ->
  tpl_msg obs 0 0 tid tpl = Ok tb -> Forall2 (dmsg_of obs tid) ds dbs ->
  exists ms,
    collect_tm stream tm (tb :: dbs) = (ms, tm_add tm obs tid tpl) /\ length ms = S (length ds) /\
    map show_delivered ms =
    show_delivered (TemplateMsg (mkHdr 0 0 0 obs) tid tpl) ::
    map (fun recs => show_delivered (DataMsg (mkHdr 0 0 0 obs) tid (map norm_rec recs))) ds.
Proof.
  intros TO Htid Hobs RO Ht F.
  destruct (collect_data stream obs tid tpl TO Htid Hobs ds dbs (tm_add tm obs tid tpl) F RO
              (tm_lookup_add_same _ _ _ _)) as (ms & E & L & M).
  cbn [collect_tm]. rewrite (e2e_template obs 0 0 tid tpl tb tm TO Ht).
  rewrite (N.mod_small obs) by assumption. rewrite (N.mod_small tid 65536) by lia.
  rewrite E. eexists. split; [reflexivity|]. split.
  - cbn [length]. now rewrite L.
  - cbn [map]. rewrite M. reflexivity.
Qed.

(* ---- the DTLS receive buffer keeps every message of an exchange inside the hypotheses ---- *)
Lemma dtls_filter_all (b : bool) (ws : list (list byte)) :
  (b = true -> Forall (fun w => blen w <= 8155) ws) ->
  (if b then filter (fun w => blen w <=? 8155) ws else ws) = ws.
Proof.
  destruct b; [|reflexivity]. intros H. specialize (H eq_refl).
  induction H as [|w ws Hw _ IH]; [reflexivity|].
  cbn [filter]. apply N.leb_le in Hw. rewrite Hw, IH. reflexivity.
Qed.

(* ---- the hypotheses of one exchange ---- *)
Definition lim (tr : string) : N :=
  if is_dtls tr then 8155 else if is_datagram tr then 65507 else 65535.

Lemma is_dtls_datagram tr : is_dtls tr = true -> is_datagram tr = true.
Proof.
  unfold is_dtls, is_datagram. intros H. apply orb_true_iff in H as [H|H]; rewrite H.
  - rewrite orb_true_r. reflexivity.
  - apply orb_true_r.
Qed.

Lemma lim_le tr : lim tr <= (if is_datagram tr then 65507 else 65535).
Proof.
  unfold lim. destruct (is_dtls tr) eqn:D.
  - rewrite (is_dtls_datagram tr D). lia.
  - destruct (is_datagram tr); lia.
Qed.

Lemma exch_hyp_parts tr x : exch_hyp tr x = true ->
  tpl_ok (x_tpl x) = true /\ forallb (recs_ok (x_tpl x)) (x_data x) = true /\
  256 <= x_tid x < 65536 /\ x_obsd x < 4294967296 /\
  spec_len_tpl (x_tpl x) <= lim tr /\
  forallb (fun recs => spec_len_data recs <=? lim tr) (x_data x) = true.
Proof.
  unfold exch_hyp. fold (lim tr). intros H.
  repeat match type of H with (_ && _ = true) => apply andb_true_iff in H; destruct H as [H ?] end.
  repeat match goal with
         | X : (_ <=? _) = true |- _ => apply N.leb_le in X
         | X : (_ <? _) = true |- _ => apply N.ltb_lt in X
         end.
  repeat split; assumption.
Qed.

Lemma forallb_le_weaken (L L' : N) (ds : list (list (list (ie * value)))) : L <= L' ->
  forallb (fun recs => spec_len_data recs <=? L) ds = true ->
  forallb (fun recs => spec_len_data recs <=? L') ds = true.
Proof.
  intros HL H. rewrite forallb_forall in *. intros r I. specialize (H r I).
  apply N.leb_le in H. apply N.leb_le. lia.
Qed.

(* ---- (3) the chain, from any state of the collector's template table ---- *)
Lemma chain_from_ok tr : forall xs tm,
  forallb (exch_hyp tr) xs = true ->
  chain_model_from tr tm xs = String.concat "" (map exch_spec xs).
Proof.
  induction xs as [|x xs IH]; intros tm H; [reflexivity|].
  cbn [forallb] in H. apply andb_true_iff in H as [Hx Hxs].
  destruct (exch_hyp_parts tr x Hx) as (TO & RO & Htid & Hobs & Hst & Hsd).
  pose proof (lim_le tr) as LL.
  assert (Hst' : spec_len_tpl (x_tpl x) <= (if is_datagram tr then 65507 else 65535)) by lia.
  pose proof (forallb_le_weaken _ _ (x_data x) LL Hsd) as Hsd'.
  cbn [map]. rewrite sconcat_cons. cbn [chain_model_from].
  fold (tpl_set0 (x_tid x) (x_tpl x)).
  destruct (tpl_send (x_obsd x) (is_datagram tr) (x_tid x) (x_tpl x) TO Htid Hst')
    as (tb & m & Ht & Bt & Bm & S1).
  rewrite S1. cbn [Exporter.r_res Exporter.r_st Exporter.r_wire].
  destruct (send_all_ok (x_obsd x) (is_datagram tr) (x_tid x) (x_tpl x) m TO Htid Bm (x_data x) 0 RO Hsd')
    as (dbs & E & F).
  rewrite E.
  rewrite (dtls_filter_all (is_dtls tr) (tb :: dbs)).
  2:{ intros D. unfold lim in Hst, Hsd. rewrite D in Hst, Hsd.
      constructor; [rewrite Bt; exact Hst|]. exact (dmsgs_small _ _ _ _ _ F Hsd). }
  destruct (collect_exchange (negb (is_datagram tr)) (x_obsd x) (x_tid x) (x_tpl x) (x_data x) tb dbs tm
              TO Htid Hobs RO Ht F) as (ms & EC & L & M).
  rewrite EC. rewrite (IH _ Hxs).
  unfold exch_spec. rewrite L, M, Bt, map_map, sconcat_cons.
  cbn [show_send]. rewrite !sapp_assoc. reflexivity.
Qed.

Theorem chain_oracle c : chain_hyp c = true -> chain_model c = chain_spec c.
Proof. intros H. unfold chain_model, chain_spec. now apply chain_from_ok. Qed.

(* a chain of two exchanges in which the second redefines the first one's (domain, template id)
   with another template *)
Definition chain_redefine (tr : string) : chain :=
  let e1 := mkIE "sourceIPv4Address" 8 Ipv4Address 0 4 in
  let e2 := mkIE "octetDeltaCount" 1 Unsigned64 0 8 in
  {| ch_transport := tr;
     ch_ex := [ {| x_obsd := 7; x_tid := 256; x_tpl := [e1; e2];
                   x_data := [[[(e1, VIP (Some [x0a; x00; x00; x01])); (e2, VU64 18446744073709551615)]];
                              [[(e1, VIP (Some [x0a; x00; x00; x02])); (e2, VU64 1)];
                               [(e1, VIP (Some [x0a; x00; x00; x03])); (e2, VU64 2)]]] |};
                {| x_obsd := 7; x_tid := 256; x_tpl := [e2];
                   x_data := [[[(e2, VU64 5)]]; [[(e2, VU64 6)]; [(e2, VU64 7)]]] |} ] |}.
