(* Generic theorems of the concurrency layer (see Model/Conc.v). No axioms. *)
From Coq Require Import List Bool Arith Lia.
From Verif.Model Require Import LockTab Conc.
Import ListNotations.

(* ========================================================================================== *)
Section MutexProofs.
  Variables St Op Res : Type.
  Variable micro : Op -> list (St -> St).
  Variable res : Op -> St -> Res.

  Notation tstate := (tstate St Op).
  Notation gstate := (gstate St Op Res).
  Notation step := (step St Op Res micro res).
  Notation run := (run St Op Res micro res).
  Notation init := (init St Op Res).
  Notation lin := (lin Op Res).
  Notation rels := (rels Op Res).
  Notation seq_state := (seq_state St Op Res micro res).
  Notation seq_results := (seq_results St Op Res micro res).
  Notation apply_all := (apply_all St).
  Notation finish := (finish St Op Res).
  Notation opid := (opid Op).
  Notation proj := (proj Op).

  Lemma seq_state_snoc : forall l i s,
    seq_state (l ++ [i]) s = apply_all (micro (op_of i)) (seq_state l s).
  Proof. intros. unfold Conc.seq_state. rewrite fold_left_app. reflexivity. Qed.

  Lemma seq_results_snoc : forall l i s,
    seq_results (l ++ [i]) s = seq_results l s ++ [(i, res (op_of i) (seq_state l s))].
  Proof.
    induction l as [|j l IH]; intros; cbn.
    - reflexivity.
    - rewrite IH. reflexivity.
  Qed.

  Definition in_cs (x : tstate) : Prop := match x with InCS _ _ _ _ _ => True | _ => False end.

  Lemma upd_same : forall (p : nat -> tstate) t x, upd p t x t = x.
  Proof. intros. unfold upd. rewrite Nat.eqb_refl. reflexivity. Qed.
  Lemma upd_other : forall (p : nat -> tstate) t x u, u <> t -> upd p t x u = p u.
  Proof. intros. unfold upd. destruct (Nat.eqb_spec u t); [contradiction|reflexivity]. Qed.

  (* ---- the main invariant ---- *)
  Definition inv1 (s0 : St) (g : gstate) : Prop :=
    match holder g with
    | None => st g = seq_state (lin (hist g)) s0 /\
              rels (hist g) = seq_results (lin (hist g)) s0 /\
              forall u, ~ in_cs (pool g u)
    | Some t => exists k o sa rest todo l,
              pool g t = InCS k o sa rest todo /\
              lin (hist g) = l ++ [(t, k, o)] /\
              sa = seq_state l s0 /\
              apply_all rest (st g) = apply_all (micro o) sa /\
              rels (hist g) = seq_results l s0 /\
              forall u, u <> t -> ~ in_cs (pool g u)
    end.

  Lemma inv1_init : forall progs s0, inv1 s0 (init progs s0).
  Proof. intros. cbn. repeat split; auto. Qed.

  Lemma inv1_step : forall s0 g t, inv1 s0 g -> inv1 s0 (step g t).
  Proof.
    intros s0 g t H. unfold Conc.step.
    destruct (pool g t) as [k [|o todo] | k o todo | k o sa [|f rest] todo] eqn:E; try exact H.
    - (* invoke *)
      unfold inv1 in *; cbn [holder hist pool st Conc.lin Conc.rels]. destruct (holder g) as [h|].
      + destruct H as (k' & o' & sa & rest & td & l & Hp & Hl & Hs & Ha & Hr & Ho).
        assert (h <> t) by (intro; subst; rewrite E in Hp; discriminate).
        exists k', o', sa, rest, td, l. rewrite upd_other by auto. repeat split; auto.
        intros u Hu. destruct (Nat.eq_dec u t) as [->|]; [rewrite upd_same; cbn; auto | rewrite upd_other by auto; auto].
      + destruct H as (Hs & Hr & Ho). repeat split; auto.
        intros u. destruct (Nat.eq_dec u t) as [->|]; [rewrite upd_same; cbn; auto | rewrite upd_other by auto; auto].
    - (* acquire *)
      destruct (holder g) as [h|] eqn:Eh; [exact H|].
      unfold inv1 in *; rewrite Eh in H; cbn [holder hist pool st Conc.lin Conc.rels]. destruct H as (Hs & Hr & Ho).
      exists k, o, (st g), (micro o), todo, (lin (hist g)). rewrite upd_same. repeat split; auto.
      intros u Hu. rewrite upd_other by auto. auto.
    - (* release *)
      unfold inv1 in *; cbn [holder hist pool st Conc.lin Conc.rels]. destruct (holder g) as [h|].
      + destruct H as (k' & o' & sa' & rest & td & l & Hp & Hl & Hs & Ha & Hr & Ho).
        destruct (Nat.eq_dec h t) as [->|Hne].
        * rewrite E in Hp. inversion Hp; subst. cbn in Ha.
          rewrite Hl. rewrite seq_state_snoc, seq_results_snoc. cbn. repeat split; auto.
          -- rewrite Hr. reflexivity.
          -- intros u. destruct (Nat.eq_dec u t) as [->|]; [rewrite upd_same; cbn; auto | rewrite upd_other by auto; auto].
        * exfalso. apply (Ho t); [auto | rewrite E; exact I].
      + destruct H as (_ & _ & Ho). exfalso. apply (Ho t). rewrite E. exact I.
    - (* micro-step *)
      unfold inv1 in *; cbn [holder hist pool st Conc.lin Conc.rels]. destruct (holder g) as [h|].
      + destruct H as (k' & o' & sa' & rest' & td & l & Hp & Hl & Hs & Ha & Hr & Ho).
        destruct (Nat.eq_dec h t) as [->|Hne].
        * rewrite E in Hp. inversion Hp; subst.
          exists k', o', (seq_state l s0), rest, td, l. rewrite upd_same. repeat split; auto.
          intros u Hu. rewrite upd_other by auto. auto.
        * exfalso. apply (Ho t); [auto | rewrite E; exact I].
      + destruct H as (_ & _ & Ho). exfalso. apply (Ho t). rewrite E. exact I.
  Qed.

  Lemma inv1_run : forall s0 sched g, inv1 s0 g -> inv1 s0 (run g sched).
  Proof. induction sched as [|t r IH]; intros g H; cbn; [exact H | apply IH, inv1_step, H]. Qed.

  (* (ii) mutex linearizability: for every schedule, the state once the holder finishes equals
     the sequential execution of the operations in lock-acquisition order, and the responses
     returned so far are exactly the sequential results of the completed operations (all but
     possibly the last acquired one, whose critical section is still running). *)
  Theorem mutex_linearizable : forall progs s0 sched,
    let g := run (init progs s0) sched in
    finish g = seq_state (lin (hist g)) s0 /\
    exists pending, seq_results (lin (hist g)) s0 = rels (hist g) ++ pending /\
                    (holder g = None -> pending = []) /\ List.length pending <= 1.
  Proof.
    intros. pose proof (inv1_run s0 sched _ (inv1_init progs s0)) as H. fold g in H.
    unfold inv1 in H. unfold Conc.finish. destruct (holder g) as [t|].
    - destruct H as (k & o & sa & rest & td & l & Hp & Hl & Hs & Ha & Hr & Ho).
      rewrite Hp, Hl, seq_state_snoc, seq_results_snoc. cbn. split.
      + rewrite Ha, Hs. reflexivity.
      + eexists. split; [rewrite Hr; reflexivity|]. split; [discriminate | cbn; lia].
    - destruct H as (Hs & Hr & _). split; auto. exists []. rewrite app_nil_r. auto.
  Qed.

  (* ---- per-thread bookkeeping invariant ---- *)
  Definition inv2 (progs : nat -> list Op) (g : gstate) : Prop :=
    (forall t, match pool g t with
               | Idle k todo => proj t (lin (hist g)) ++ todo = progs t /\ k = List.length (proj t (lin (hist g)))
               | Waiting k o todo => proj t (lin (hist g)) ++ o :: todo = progs t /\ k = List.length (proj t (lin (hist g)))
                                     /\ In (EInv (t, k, o)) (hist g)
               | InCS k o _ _ todo => proj t (lin (hist g)) ++ todo = progs t /\ S k = List.length (proj t (lin (hist g)))
                                      /\ In (EAcq (t, k, o)) (hist g)
               end) /\
    (forall i, In (EAcq i) (hist g) -> In (EInv i) (hist g)) /\
    (forall i r, In (ERel i r) (hist g) -> In (EAcq i) (hist g)).

  Lemma proj_app : forall t a b, proj t (a ++ b) = proj t a ++ proj t b.
  Proof. intros. unfold Conc.proj. rewrite filter_app, map_app. reflexivity. Qed.

  Lemma proj_one_same : forall t k o, proj t [(t, k, o)] = [o].
  Proof. intros. unfold Conc.proj. cbn. rewrite Nat.eqb_refl. reflexivity. Qed.
  Lemma proj_one_other : forall t u k o, u <> t -> proj t [(u, k, o)] = [].
  Proof. intros. unfold Conc.proj. cbn. destruct (Nat.eqb_spec u t); [contradiction|reflexivity]. Qed.

  Lemma inv2_init : forall progs s0, inv2 progs (init progs s0).
  Proof. intros. unfold inv2; cbn. repeat split; auto; intros; contradiction. Qed.

  Lemma inv2_step : forall progs g t, inv2 progs g -> inv2 progs (step g t).
  Proof.
    intros progs g t (Hp & Ha & Hr). unfold Conc.step.
    pose proof (Hp t) as Ht.
    destruct (pool g t) as [k [|o todo] | k o todo | k o sa [|f rest] todo] eqn:E; try (split; [exact Hp | split; assumption]).
    - (* invoke *)
      split; [|split]; cbn [holder hist pool st Conc.lin In].
      + intros u. destruct (Nat.eq_dec u t) as [->|Hne].
        * rewrite upd_same. destruct Ht as (H1 & H2). repeat split; auto.
        * rewrite upd_other by auto. specialize (Hp u).
          destruct (pool g u); intuition.
      + intros i [Hi|Hi]; [discriminate | right; auto].
      + intros i r [Hi|Hi]; [discriminate | right; eauto].
    - (* acquire *)
      destruct (holder g); [split; [exact Hp | split; assumption]|].
      split; [|split]; cbn [holder hist pool st Conc.lin In].
      + intros u. destruct (Nat.eq_dec u t) as [->|Hne].
        * rewrite upd_same. destruct Ht as (H1 & H2 & H3).
          rewrite proj_app, proj_one_same, app_length. cbn. repeat split.
          -- rewrite <- app_assoc. exact H1.
          -- lia.
          -- left; reflexivity.
        * rewrite upd_other by auto. specialize (Hp u).
          rewrite proj_app, proj_one_other, app_nil_r by auto.
          destruct (pool g u); intuition.
      + intros i [Hi|Hi].
        * inversion Hi; subst. right. destruct Ht as (_ & _ & H3). exact H3.
        * right; auto.
      + intros i r [Hi|Hi]; [discriminate | right; eauto].
    - (* release *)
      split; [|split]; cbn [holder hist pool st Conc.lin In].
      + intros u. destruct (Nat.eq_dec u t) as [->|Hne].
        * rewrite upd_same. destruct Ht as (H1 & H2 & H3). split; auto.
        * rewrite upd_other by auto. specialize (Hp u).
          destruct (pool g u); intuition.
      + intros i [Hi|Hi]; [discriminate | right; auto].
      + intros i r [Hi|Hi].
        * inversion Hi; subst. right. destruct Ht as (_ & _ & H3). exact H3.
        * right; eauto.
    - (* micro-step *)
      split; [|split]; cbn [holder hist pool st Conc.lin In]; auto.
      intros u. destruct (Nat.eq_dec u t) as [->|Hne].
      + rewrite upd_same. exact Ht.
      + rewrite upd_other by auto. apply Hp.
  Qed.

  Lemma inv2_run : forall progs sched g, inv2 progs g -> inv2 progs (run g sched).
  Proof. induction sched as [|t r IH]; intros g H; cbn; [exact H | apply IH, inv2_step, H]. Qed.

  (* (i) per-thread program order: the operations of thread t appear in the linearization in
     the order of t's program (they form a prefix of it). *)
  Theorem mutex_program_order : forall progs s0 sched t,
    exists rest, proj t (lin (hist (run (init progs s0) sched))) ++ rest = progs t.
  Proof.
    intros. pose proof (inv2_run progs sched _ (inv2_init progs s0)) as (Hp & _).
    specialize (Hp t). destruct (pool _ t).
    - destruct Hp as (H & _). eauto.
    - destruct Hp as (H & _). eauto.
    - destruct Hp as (H & _). eauto.
  Qed.

  (* the history only grows, the linearization only grows at its end *)
  Lemma hist_step : forall g t, exists new, hist (step g t) = new ++ hist g.
  Proof.
    intros. unfold Conc.step.
    destruct (pool g t) as [k [|o todo] | k o todo | k o sa [|f rest] todo]; cbn;
      try (exists []; reflexivity); try (eexists [_]; reflexivity).
    destruct (holder g); [exists []; reflexivity | eexists [_]; reflexivity].
  Qed.
  Lemma hist_run : forall sched g, exists new, hist (run g sched) = new ++ hist g.
  Proof.
    induction sched as [|t r IH]; intros g.
    - exists []; reflexivity.
    - change (run g (t :: r)) with (run (step g t) r). destruct (IH (step g t)) as (n1 & H1). destruct (hist_step g t) as (n2 & H2).
      exists (n1 ++ n2). rewrite H1, H2, app_assoc. reflexivity.
  Qed.
  Lemma lin_app : forall a b, lin (a ++ b) = lin b ++ lin a.
  Proof.
    induction a as [|e a IH]; intros; cbn.
    - rewrite app_nil_r. reflexivity.
    - destruct e; rewrite ?IH, ?app_assoc; reflexivity.
  Qed.
  Lemma lin_in : forall h i, In i (lin h) <-> In (EAcq i) h.
  Proof.
    induction h as [|e h IH]; intros; cbn; [tauto|].
    destruct e; cbn; rewrite ?in_app_iff, IH; cbn; split; intros H.
    - right; auto.
    - destruct H as [H|H]; [discriminate|auto].
    - destruct H as [H|[H|[]]]; [right; auto | left; congruence].
    - destruct H as [H|H]; [right; left; congruence | left; auto].
    - right; auto.
    - destruct H as [H|H]; [discriminate|auto].
  Qed.

  Lemma run_app : forall a b g, run g (a ++ b) = run (run g a) b.
  Proof. intros. unfold Conc.run. apply fold_left_app. Qed.

  (* real-time order: if operation a has responded by the end of schedule s1 and operation b is
     invoked only later (during s2), then a precedes b in the linearization. *)
  Theorem mutex_real_time : forall progs s0 s1 s2 a r b,
    let g1 := run (init progs s0) s1 in
    let g2 := run (init progs s0) (s1 ++ s2) in
    In (ERel a r) (hist g1) -> ~ In (EInv b) (hist g1) -> In b (lin (hist g2)) ->
    exists l1 l2 l3, lin (hist g2) = l1 ++ a :: l2 ++ b :: l3.
  Proof.
    intros progs s0 s1 s2 a r b g1 g2 Ha Hb Hin.
    pose proof (inv2_run progs s1 _ (inv2_init progs s0)) as (_ & Hai & Hra). fold g1 in Hai, Hra.
    assert (In a (lin (hist g1))) as Ha1 by (apply lin_in; eauto).
    assert (~ In b (lin (hist g1))) as Hb1 by (intro X; apply Hb, Hai, lin_in, X).
    unfold g2 in *. rewrite run_app in *. fold g1 in Hin |- *.
    destruct (hist_run s2 g1) as (new & Hn). rewrite Hn in *. rewrite lin_app in *.
    apply in_app_or in Hin. destruct Hin as [Hin|Hin]; [contradiction|].
    apply in_split in Ha1. destruct Ha1 as (l1 & l2 & E1).
    apply in_split in Hin. destruct Hin as (e1 & e2 & E2).
    exists l1, (l2 ++ e1), e2. rewrite E1, E2. repeat (rewrite <- app_assoc; cbn [app]). reflexivity.
  Qed.
End MutexProofs.
