(* Generic theorems of the concurrency layer (see Model/Conc.v). No axioms. *)
From Coq Require Import List Bool Arith Lia.
From Verif.Model Require Import LockTab Conc.
Import ListNotations.

(* ========================================================================================== *)
Section MutexProofs.
  Variables St Op Res : Type.
  Variable micro : Op -> list (St -> St).
  Variable res : Op -> St -> Res.

  Notation tstate := (tstate St Op).
  Notation gstate := (gstate St Op Res).
  Notation step := (step St Op Res micro res).
  Notation run := (run St Op Res micro res).
  Notation init := (init St Op Res).
  Notation lin := (lin Op Res).
  Notation rels := (rels Op Res).
  Notation seq_state := (seq_state St Op Res micro res).
  Notation seq_results := (seq_results St Op Res micro res).
  Notation apply_all := (apply_all St).
  Notation finish := (finish St Op Res).
  Notation opid := (opid Op).
  Notation proj := (proj Op).

  Lemma seq_state_snoc : forall l i s,
    seq_state (l ++ [i]) s = apply_all (micro (op_of i)) (seq_state l s).
  Proof. intros. unfold Conc.seq_state. rewrite fold_left_app. reflexivity. Qed.

  Lemma seq_results_snoc : forall l i s,
    seq_results (l ++ [i]) s = seq_results l s ++ [(i, res (op_of i) (seq_state l s))].
  Proof.
    induction l as [|j l IH]; intros; cbn.
    - reflexivity.
    - rewrite IH. reflexivity.
  Qed.

  Definition in_cs (x : tstate) : Prop := match x with InCS _ _ _ _ _ => True | _ => False end.

  Lemma upd_same : forall (p : nat -> tstate) t x, upd p t x t = x.
  Proof. intros. unfold upd. rewrite Nat.eqb_refl. reflexivity. Qed.
  Lemma upd_other : forall (p : nat -> tstate) t x u, u <> t -> upd p t x u = p u.
  Proof. intros. unfold upd. destruct (Nat.eqb_spec u t); [contradiction|reflexivity]. Qed.

  (* ---- the main invariant ---- *)
  Definition inv1 (s0 : St) (g : gstate) : Prop :=
    match holder g with
    | None => st g = seq_state (lin (hist g)) s0 /\
              rels (hist g) = seq_results (lin (hist g)) s0 /\
              forall u, ~ in_cs (pool g u)
    | Some t => exists k o sa rest todo l,
              pool g t = InCS k o sa rest todo /\
              lin (hist g) = l ++ [(t, k, o)] /\
              sa = seq_state l s0 /\
              apply_all rest (st g) = apply_all (micro o) sa /\
              rels (hist g) = seq_results l s0 /\
              forall u, u <> t -> ~ in_cs (pool g u)
    end.

  Lemma inv1_init : forall progs s0, inv1 s0 (init progs s0).
  Proof. intros. cbn. repeat split; auto. Qed.

  Lemma inv1_step : forall s0 g t, inv1 s0 g -> inv1 s0 (step g t).
  Proof.
    intros s0 g t H. unfold Conc.step.
    destruct (pool g t) as [k [|o todo] | k o todo | k o sa [|f rest] todo] eqn:E; try exact H.
    - (* invoke *)
      unfold inv1 in *; cbn [holder hist pool st Conc.lin Conc.rels]. destruct (holder g) as [h|].
      + destruct H as (k' & o' & sa & rest & td & l & Hp & Hl & Hs & Ha & Hr & Ho).
        assert (h <> t) by (intro; subst; rewrite E in Hp; discriminate).
        exists k', o', sa, rest, td, l. rewrite upd_other by auto. repeat split; auto.
        intros u Hu. destruct (Nat.eq_dec u t) as [->|]; [rewrite upd_same; cbn; auto | rewrite upd_other by auto; auto].
      + destruct H as (Hs & Hr & Ho). repeat split; auto.
        intros u. destruct (Nat.eq_dec u t) as [->|]; [rewrite upd_same; cbn; auto | rewrite upd_other by auto; auto].
    - (* acquire *)
      destruct (holder g) as [h|] eqn:Eh; [exact H|].
      unfold inv1 in *; rewrite Eh in H; cbn [holder hist pool st Conc.lin Conc.rels]. destruct H as (Hs & Hr & Ho).
      exists k, o, (st g), (micro o), todo, (lin (hist g)). rewrite upd_same. repeat split; auto.
      intros u Hu. rewrite upd_other by auto. auto.
    - (* release *)
      unfold inv1 in *; cbn [holder hist pool st Conc.lin Conc.rels]. destruct (holder g) as [h|].
      + destruct H as (k' & o' & sa' & rest & td & l & Hp & Hl & Hs & Ha & Hr & Ho).
        destruct (Nat.eq_dec h t) as [->|Hne].
        * rewrite E in Hp. inversion Hp; subst. cbn in Ha.
          rewrite Hl. rewrite seq_state_snoc, seq_results_snoc. cbn. repeat split; auto.
          -- rewrite Hr. reflexivity.
          -- intros u. destruct (Nat.eq_dec u t) as [->|]; [rewrite upd_same; cbn; auto | rewrite upd_other by auto; auto].
        * exfalso. apply (Ho t); [auto | rewrite E; exact I].
      + destruct H as (_ & _ & Ho). exfalso. apply (Ho t). rewrite E. exact I.
    - (* micro-step *)
      unfold inv1 in *; cbn [holder hist pool st Conc.lin Conc.rels]. destruct (holder g) as [h|].
      + destruct H as (k' & o' & sa' & rest' & td & l & Hp & Hl & Hs & Ha & Hr & Ho).
        destruct (Nat.eq_dec h t) as [->|Hne].
        * rewrite E in Hp. inversion Hp; subst.
          exists k', o', (seq_state l s0), rest, td, l. rewrite upd_same. repeat split; auto.
          intros u Hu. rewrite upd_other by auto. auto.
        * exfalso. apply (Ho t); [auto | rewrite E; exact I].
      + destruct H as (_ & _ & Ho). exfalso. apply (Ho t). rewrite E. exact I.
  Qed.

  Lemma inv1_run : forall s0 sched g, inv1 s0 g -> inv1 s0 (run g sched).
  Proof. induction sched as [|t r IH]; intros g H; cbn; [exact H | apply IH, inv1_step, H]. Qed.

  (* (ii) mutex linearizability: for every schedule, the state once the holder finishes equals
     the sequential execution of the operations in lock-acquisition order, and the responses
     returned so far are exactly the sequential results of the completed operations (all but
     possibly the last acquired one, whose critical section is still running). *)
  Theorem mutex_linearizable : forall progs s0 sched,
    let g := run (init progs s0) sched in
    finish g = seq_state (lin (hist g)) s0 /\
    exists pending, seq_results (lin (hist g)) s0 = rels (hist g) ++ pending /\
                    (holder g = None -> pending = []) /\ List.length pending <= 1.
  Proof.
    intros. pose proof (inv1_run s0 sched _ (inv1_init progs s0)) as H. fold g in H.
    unfold inv1 in H. unfold Conc.finish. destruct (holder g) as [t|].
    - destruct H as (k & o & sa & rest & td & l & Hp & Hl & Hs & Ha & Hr & Ho).
      rewrite Hp, Hl, seq_state_snoc, seq_results_snoc. cbn. split.
      + rewrite Ha, Hs. reflexivity.
      + eexists. split; [rewrite Hr; reflexivity|]. split; [discriminate | cbn; lia].
    - destruct H as (Hs & Hr & _). split; auto. exists []. rewrite app_nil_r. auto.
  Qed.

  (* ---- per-thread bookkeeping invariant ---- *)
  Definition inv2 (progs : nat -> list Op) (g : gstate) : Prop :=
    (forall t, match pool g t with
               | Idle k todo => proj t (lin (hist g)) ++ todo = progs t /\ k = List.length (proj t (lin (hist g)))
               | Waiting k o todo => proj t (lin (hist g)) ++ o :: todo = progs t /\ k = List.length (proj t (lin (hist g)))
                                     /\ In (EInv (t, k, o)) (hist g)
               | InCS k o _ _ todo => proj t (lin (hist g)) ++ todo = progs t /\ S k = List.length (proj t (lin (hist g)))
                                      /\ In (EAcq (t, k, o)) (hist g)
               end) /\
    (forall i, In (EAcq i) (hist g) -> In (EInv i) (hist g)) /\
    (forall i r, In (ERel i r) (hist g) -> In (EAcq i) (hist g)).

  Lemma proj_app : forall t a b, proj t (a ++ b) = proj t a ++ proj t b.
  Proof. intros. unfold Conc.proj. rewrite filter_app, map_app. reflexivity. Qed.

  Lemma proj_one_same : forall t k o, proj t [(t, k, o)] = [o].
  Proof. intros. unfold Conc.proj. cbn. rewrite Nat.eqb_refl. reflexivity. Qed.
  Lemma proj_one_other : forall t u k o, u <> t -> proj t [(u, k, o)] = [].
  Proof. intros. unfold Conc.proj. cbn. destruct (Nat.eqb_spec u t); [contradiction|reflexivity]. Qed.

  Lemma inv2_init : forall progs s0, inv2 progs (init progs s0).
  Proof. intros. unfold inv2; cbn. repeat split; auto; intros; contradiction. Qed.

  Lemma inv2_step : forall progs g t, inv2 progs g -> inv2 progs (step g t).
  Proof.
    intros progs g t (Hp & Ha & Hr). unfold Conc.step.
    pose proof (Hp t) as Ht.
    destruct (pool g t) as [k [|o todo] | k o todo | k o sa [|f rest] todo] eqn:E; try (split; [exact Hp | split; assumption]).
    - (* invoke *)
      split; [|split]; cbn [holder hist pool st Conc.lin In].
      + intros u. destruct (Nat.eq_dec u t) as [->|Hne].
        * rewrite upd_same. destruct Ht as (H1 & H2). repeat split; auto.
        * rewrite upd_other by auto. specialize (Hp u).
          destruct (pool g u); intuition.
      + intros i [Hi|Hi]; [discriminate | right; auto].
      + intros i r [Hi|Hi]; [discriminate | right; eauto].
    - (* acquire *)
      destruct (holder g); [split; [exact Hp | split; assumption]|].
      split; [|split]; cbn [holder hist pool st Conc.lin In].
      + intros u. destruct (Nat.eq_dec u t) as [->|Hne].
        * rewrite upd_same. destruct Ht as (H1 & H2 & H3).
          rewrite proj_app, proj_one_same, app_length. cbn. repeat split.
          -- rewrite <- app_assoc. exact H1.
          -- lia.
          -- left; reflexivity.
        * rewrite upd_other by auto. specialize (Hp u).
          rewrite proj_app, proj_one_other, app_nil_r by auto.
          destruct (pool g u); intuition.
      + intros i [Hi|Hi].
        * inversion Hi; subst. right. destruct Ht as (_ & _ & H3). exact H3.
        * right; auto.
      + intros i r [Hi|Hi]; [discriminate | right; eauto].
    - (* release *)
      split; [|split]; cbn [holder hist pool st Conc.lin In].
      + intros u. destruct (Nat.eq_dec u t) as [->|Hne].
        * rewrite upd_same. destruct Ht as (H1 & H2 & H3). split; auto.
        * rewrite upd_other by auto. specialize (Hp u).
          destruct (pool g u); intuition.
      + intros i [Hi|Hi]; [discriminate | right; auto].
      + intros i r [Hi|Hi].
        * inversion Hi; subst. right. destruct Ht as (_ & _ & H3). exact H3.
        * right; eauto.
    - (* micro-step *)
      split; [|split]; cbn [holder hist pool st Conc.lin In]; auto.
      intros u. destruct (Nat.eq_dec u t) as [->|Hne].
      + rewrite upd_same. exact Ht.
      + rewrite upd_other by auto. apply Hp.
  Qed.

  Lemma inv2_run : forall progs sched g, inv2 progs g -> inv2 progs (run g sched).
  Proof. induction sched as [|t r IH]; intros g H; cbn; [exact H | apply IH, inv2_step, H]. Qed.

  (* (i) per-thread program order: the operations of thread t appear in the linearization in
     the order of t's program (they form a prefix of it). *)
  Theorem mutex_program_order : forall progs s0 sched t,
    exists rest, proj t (lin (hist (run (init progs s0) sched))) ++ rest = progs t.
  Proof.
    intros. pose proof (inv2_run progs sched _ (inv2_init progs s0)) as (Hp & _).
    specialize (Hp t). destruct (pool _ t).
    - destruct Hp as (H & _). eauto.
    - destruct Hp as (H & _). eauto.
    - destruct Hp as (H & _). eauto.
  Qed.

  (* the history only grows, the linearization only grows at its end *)
  Lemma hist_step : forall g t, exists new, hist (step g t) = new ++ hist g.
  Proof.
    intros. unfold Conc.step.
    destruct (pool g t) as [k [|o todo] | k o todo | k o sa [|f rest] todo]; cbn;
      try (exists []; reflexivity); try (eexists [_]; reflexivity).
    destruct (holder g); [exists []; reflexivity | eexists [_]; reflexivity].
  Qed.
  Lemma hist_run : forall sched g, exists new, hist (run g sched) = new ++ hist g.
  Proof.
    induction sched as [|t r IH]; intros g.
    - exists []; reflexivity.
    - change (run g (t :: r)) with (run (step g t) r). destruct (IH (step g t)) as (n1 & H1). destruct (hist_step g t) as (n2 & H2).
      exists (n1 ++ n2). rewrite H1, H2, app_assoc. reflexivity.
  Qed.
  Lemma lin_app : forall a b, lin (a ++ b) = lin b ++ lin a.
  Proof.
    induction a as [|e a IH]; intros; cbn.
    - rewrite app_nil_r. reflexivity.
    - destruct e; rewrite ?IH, ?app_assoc; reflexivity.
  Qed.
  Lemma lin_in : forall h i, In i (lin h) <-> In (EAcq i) h.
  Proof.
    induction h as [|e h IH]; intros; cbn; [tauto|].
    destruct e; cbn; rewrite ?in_app_iff, IH; cbn; split; intros H.
    - right; auto.
    - destruct H as [H|H]; [discriminate|auto].
    - destruct H as [H|[H|[]]]; [right; auto | left; congruence].
    - destruct H as [H|H]; [right; left; congruence | left; auto].
    - right; auto.
    - destruct H as [H|H]; [discriminate|auto].
  Qed.

  Lemma run_app : forall a b g, run g (a ++ b) = run (run g a) b.
  Proof. intros. unfold Conc.run. apply fold_left_app. Qed.

  (* real-time order: if operation a has responded by the end of schedule s1 and operation b is
     invoked only later (during s2), then a precedes b in the linearization. *)
  Theorem mutex_real_time : forall progs s0 s1 s2 a r b,
    let g1 := run (init progs s0) s1 in
    let g2 := run (init progs s0) (s1 ++ s2) in
    In (ERel a r) (hist g1) -> ~ In (EInv b) (hist g1) -> In b (lin (hist g2)) ->
    exists l1 l2 l3, lin (hist g2) = l1 ++ a :: l2 ++ b :: l3.
  Proof.
    intros progs s0 s1 s2 a r b g1 g2 Ha Hb Hin.
    pose proof (inv2_run progs s1 _ (inv2_init progs s0)) as (_ & Hai & Hra). fold g1 in Hai, Hra.
    assert (In a (lin (hist g1))) as Ha1 by (apply lin_in; eauto).
    assert (~ In b (lin (hist g1))) as Hb1 by (intro X; apply Hb, Hai, lin_in, X).
    unfold g2 in *. rewrite run_app in *. fold g1 in Hin |- *.
    destruct (hist_run s2 g1) as (new & Hn). rewrite Hn in *. rewrite lin_app in *.
    apply in_app_or in Hin. destruct Hin as [Hin|Hin]; [contradiction|].
    apply in_split in Ha1. destruct Ha1 as (l1 & l2 & E1).
    apply in_split in Hin. destruct Hin as (e1 & e2 & E2).
    exists l1, (l2 ++ e1), e2. rewrite E1, E2. repeat (rewrite <- app_assoc; cbn [app]). reflexivity.
  Qed.
End MutexProofs.

(* ========================================================================================== *)
Section LocksetProofs.
  Variable thr : root -> nat.
  Variable multi : nat -> bool.

  Lemma lock_wf_app : forall a b, lock_wf (a ++ b) -> lock_wf b.
  Proof. induction a as [|e a IH]; intros b H; [exact H | destruct H as (_ & H); auto]. Qed.

  (* mutual exclusion *)
  Lemma both_eq : forall x t m' m, Nat.eqb x t && Nat.eqb m' m = true -> x = t /\ m' = m.
  Proof. intros x t m' m H. apply andb_true_iff in H. destruct H as (A & B). apply Nat.eqb_eq in A, B. auto. Qed.

  Lemma held_excl : forall tr t u m w w', lock_wf tr -> t <> u ->
    held tr t m = Some w -> held tr u m = Some w' -> w = false /\ w' = false.
  Proof.
    induction tr as [|[x a] older IH]; intros t u m w w' Hwf Hne Ht Hu; [discriminate|].
    destruct Hwf as (Hl & Hwf). destruct a as [m' w0 | m' | | ]; cbn in Ht, Hu; try (eapply IH; eassumption).
    - unfold legal in Hl; cbn in Hl. destruct Hl as (_ & Hl).
      destruct (Nat.eqb x t && Nat.eqb m' m) eqn:E1; destruct (Nat.eqb x u && Nat.eqb m' m) eqn:E2.
      + apply both_eq in E1, E2. destruct E1, E2. congruence.
      + apply both_eq in E1. destruct E1; subst. inversion Ht; subst. eapply Hl; [|exact Hu]. congruence.
      + apply both_eq in E2. destruct E2; subst. inversion Hu; subst. destruct (Hl t w) as (A & B); auto.
      + eapply IH; eassumption.
    - destruct (Nat.eqb x t && Nat.eqb m' m) eqn:E1; [discriminate|].
      destruct (Nat.eqb x u && Nat.eqb m' m) eqn:E2; [discriminate|]. eapply IH; eassumption.
  Qed.

  (* a lock stays held across a segment unless its holder releases it there *)
  Lemma held_persist_or : forall q older t m w, lock_wf (q ++ older) -> held older t m = Some w ->
    held (q ++ older) t m = Some w \/ exists q2 q1, q = q2 ++ (t, Rel m) :: q1.
  Proof.
    induction q as [|[x a] q IH]; intros older t m w Hwf Hh; [left; exact Hh|].
    cbn in Hwf. destruct Hwf as (Hl & Hwf).
    destruct (IH older t m w Hwf Hh) as [Hk | (q2 & q1 & E)].
    2:{ right. exists ((x, a) :: q2), q1. rewrite E. reflexivity. }
    destruct a as [m' w0 | m' | | ]; cbn; auto.
    - destruct (Nat.eqb_spec x t) as [->|]; destruct (Nat.eqb_spec m' m) as [->|]; cbn; auto.
      unfold legal in Hl; cbn in Hl. destruct Hl as (Hn & _). congruence.
    - destruct (Nat.eqb_spec x t) as [->|]; destruct (Nat.eqb_spec m' m) as [->|]; cbn; auto.
      right. exists [], q. reflexivity.
  Qed.

  (* a lock held after a segment was held before it or was acquired inside it *)
  Lemma held_origin : forall q older t m w, held (q ++ older) t m = Some w ->
    held older t m = Some w \/ exists q2 q1, q = q2 ++ (t, Acq m w) :: q1.
  Proof.
    induction q as [|[x a] q IH]; intros older t m w Hh; [left; exact Hh|].
    cbn in Hh.
    assert (held (q ++ older) t m = Some w -> held older t m = Some w \/ exists q2 q1, (x, a) :: q = q2 ++ (t, Acq m w) :: q1) as K.
    { intros Hk. destruct (IH older t m w Hk) as [|(q2 & q1 & E)]; [left; auto|].
      right. exists ((x, a) :: q2), q1. rewrite E. reflexivity. }
    destruct a as [m' w0 | m' | | ]; auto.
    - destruct (Nat.eqb_spec x t) as [->|]; destruct (Nat.eqb_spec m' m) as [->|]; cbn in Hh; auto.
      inversion Hh; subst. right. exists [], q. reflexivity.
    - destruct (Nat.eqb_spec x t) as [->|]; destruct (Nat.eqb_spec m' m) as [->|]; cbn in Hh; auto. discriminate.
  Qed.

  Lemma shares_lock_elim : forall a b, shares_lock a b = true ->
    exists m md1 md2, In (m, md1) (a_locks a) /\ In (m, md2) (a_locks b) /\ (md1 = LW \/ md2 = LW).
  Proof.
    intros a b H. unfold shares_lock in H. apply existsb_exists in H. destruct H as ([m1 md1] & H1 & H).
    apply existsb_exists in H. destruct H as ([m2 md2] & H2 & H). cbn in H.
    apply andb_true_iff in H. destruct H as (E & W). apply Nat.eqb_eq in E. subst m2.
    exists m1, md1, md2. repeat split; auto.
    destruct md1, md2; cbn in W; auto; discriminate.
  Qed.

  (* (iii) lockset race freedom: under lockset_ok, in every execution that respects mutex
     semantics and is described by the table, two conflicting accesses by different threads
     (not both atomic) are never unordered: between them lies a release by the first thread
     followed by an acquisition of the same mutex by the second, or the first thread's Spawn. *)
  Theorem lockset_race_free : forall tbl tr,
    lockset_ok thr multi tbl = true -> lock_wf tr -> consistent thr multi tbl tr ->
    forall p3 t2 b r2 p2 t1 a r1 p1,
      tr = p3 ++ (t2, Acc b r2) :: p2 ++ (t1, Acc a r1) :: p1 ->
      t1 <> t2 -> racy a b = true -> ordered_between t1 t2 p2.
  Proof.
    intros tbl tr Hok Hwf (C1 & C2 & C3) p3 t2 b r2 p2 t1 a r1 p1 E Hne Hracy.
    assert (tr = (p3 ++ (t2, Acc b r2) :: p2) ++ (t1, Acc a r1) :: p1) as E1
      by (rewrite E, <- app_assoc; reflexivity).
    destruct (C1 _ _ _ _ _ E1) as (Ia & Ra & La).
    destruct (C1 _ _ _ _ _ E) as (Ib & Rb & Lb).
    assert (may_par thr multi r1 r2 = true) as Hpar.
    { apply (C2 t1 a r1 t2 b r2); auto; rewrite E; apply in_or_app; right; [right; apply in_or_app; right; left|left]; reflexivity. }
    unfold lockset_ok in Hok. apply andb_true_iff in Hok. destruct Hok as (_ & Hok).
    rewrite forallb_forall in Hok. specialize (Hok a Ia). rewrite forallb_forall in Hok. specialize (Hok b Ib).
    unfold racy in Hracy. apply andb_true_iff in Hracy. destruct Hracy as (Hc & Hat).
    unfold pair_ok in Hok. rewrite Hc in Hok. cbn in Hok.
    assert (roots_par thr multi a b = true) as Hrp.
    { unfold roots_par. apply existsb_exists. exists r1. split; auto. apply existsb_exists. exists r2. auto. }
    rewrite Hrp in Hok. cbn in Hok. apply negb_true_iff in Hat. rewrite Hat in Hok. cbn in Hok.
    rewrite orb_false_r in Hok.
    apply orb_true_iff in Hok. destruct Hok as [Hok | Hib].
    1: apply orb_true_iff in Hok; destruct Hok as [Hsh | Hia].
    - (* a common lock *)
      destruct (shares_lock_elim a b Hsh) as (m & md1 & md2 & I1 & I2 & W).
      destruct (La m md1 I1) as (w1 & H1 & M1). destruct (Lb m md2 I2) as (w2 & H2 & M2).
      assert (w1 = true \/ w2 = true) as Wt by (destruct W; [left; apply M1 | right; apply M2]; auto).
      pose proof (lock_wf_app _ _ (eq_ind _ lock_wf Hwf _ E1)) as Hwf1. destruct Hwf1 as (_ & Hwf1).
      pose proof (lock_wf_app _ _ (eq_ind _ lock_wf Hwf _ E)) as Hwf2. destruct Hwf2 as (_ & Hwf2).
      destruct (held_origin p2 _ t2 m w2 H2) as [Hold | (q2 & q1 & Ep2)].
      + cbn in Hold. destruct (held_excl p1 t1 t2 m w1 w2 Hwf1 Hne H1 Hold) as (-> & ->). destruct Wt; discriminate.
      + rewrite Ep2, <- app_assoc in Hwf2. cbn in Hwf2. apply lock_wf_app in Hwf2. destruct Hwf2 as (Hl & Hwf3).
        unfold legal in Hl; cbn in Hl. destruct Hl as (_ & Hl).
        assert (held ((t1, Acc a r1) :: p1) t1 m = Some w1) as H1' by exact H1.
        destruct (held_persist_or q1 _ t1 m w1 Hwf3 H1') as [Hk | (q1b & q1a & Eq1)].
        * destruct (Hl t1 w1) as (-> & ->); auto. destruct Wt; discriminate.
        * left. exists m, w2, q2, q1b, q1a. rewrite Ep2, Eq1. reflexivity.
    - (* the older access is an Init-phase access: the newer one follows the Spawn *)
      destruct (C3 _ _ _ _ _ E1 Hia) as (_ & S). right. eapply (S p3 t2 b r2 p2); auto.
    - (* the newer access cannot be an Init-phase access of another thread *)
      destruct (C3 _ _ _ _ _ E Hib) as (S & _). exfalso. apply Hne.
      apply (S t1 a r1). apply in_or_app. right. left. reflexivity.
  Qed.
End LocksetProofs.

(* ========================================================================================== *)
Section ProgressProofs.
  Variable State : Type.
  Variable pstep : State -> nat -> State.
  Variable enabled : State -> nat -> bool.
  Variable terminated : State -> bool.
  Variable measure : State -> nat.
  Variable Inv : State -> Prop.
  Variable threads : list nat.

  Hypothesis H_dec : forall s t, Inv s -> enabled s t = true -> measure (pstep s t) < measure s.
  Hypothesis H_noop : forall s t, enabled s t = false -> pstep s t = s.
  Hypothesis H_inv : forall s t, Inv s -> Inv (pstep s t).
  Hypothesis H_live : forall s, Inv s -> terminated s = false -> exists t, In t threads /\ enabled s t = true.
  Hypothesis H_quiet : forall s t, Inv s -> terminated s = true -> enabled s t = false.

  Notation prun := (prun State pstep).
  Notation effective := (effective State pstep enabled).

  Lemma prun_inv : forall sched s, Inv s -> Inv (prun s sched).
  Proof. induction sched as [|t r IH]; intros s H; cbn; [exact H | apply IH, H_inv, H]. Qed.

  (* (iv-a) in ANY schedule at most `measure s` steps are effective *)
  Theorem progress_bound : forall sched s, Inv s -> effective s sched + measure (prun s sched) <= measure s.
  Proof.
    unfold Conc.prun. induction sched as [|t r IH]; intros s H; cbn; [lia|].
    destruct (enabled s t) eqn:E.
    - pose proof (H_dec s t H E). pose proof (IH (pstep s t) (H_inv s t H)). lia.
    - rewrite (H_noop s t E). pose proof (IH s H). lia.
  Qed.

  Lemma measure_mono : forall sched s, Inv s -> measure (prun s sched) <= measure s.
  Proof. intros. pose proof (progress_bound sched s H). lia. Qed.

  Lemma round_decreases : forall round s t, Inv s -> In t round -> enabled s t = true ->
    measure (prun s round) < measure s.
  Proof.
    induction round as [|x r IH]; intros s t H Hin He; [contradiction|]. change (prun s (x :: r)) with (prun (pstep s x) r).
    destruct (enabled s x) eqn:E.
    - pose proof (H_dec s x H E). pose proof (measure_mono r (pstep s x) (H_inv s x H)). lia.
    - rewrite (H_noop s x E). destruct Hin as [->|Hin]; [congruence|]. eapply IH; eauto.
  Qed.

  Lemma terminated_stays : forall sched s, Inv s -> terminated s = true -> prun s sched = s.
  Proof.
    induction sched as [|t r IH]; intros s H Ht; [reflexivity|]. change (prun s (t :: r)) with (prun (pstep s t) r).
    rewrite (H_noop s t (H_quiet s t H Ht)). auto.
  Qed.

  Lemma prun_app : forall a b s, prun s (a ++ b) = prun (prun s a) b.
  Proof. intros. unfold Conc.prun. apply fold_left_app. Qed.

  (* (iv-b) every fair schedule terminates: `measure s` rounds, each scheduling every thread at
     least once (in any order, with any repetitions), end in a terminated state *)
  Theorem fair_terminates : forall rounds s, Inv s ->
    Forall (fun r => incl threads r) rounds -> measure s <= List.length rounds ->
    terminated (prun s (concat rounds)) = true.
  Proof.
    induction rounds as [|r rs IH]; intros s H Hf Hm; cbn [concat].
    - change (prun s []) with s. destruct (terminated s) eqn:T; [reflexivity|].
      destruct (H_live s H T) as (t & _ & E). pose proof (H_dec s t H E). cbn in Hm. lia.
    - rewrite prun_app. inversion Hf as [|? ? Hr Hrs]; subst.
      destruct (terminated s) eqn:T.
      + rewrite (terminated_stays r s H T). rewrite (terminated_stays (concat rs) s H T). exact T.
      + destruct (H_live s H T) as (t & Hin & E).
        pose proof (round_decreases r s t H (Hr t Hin) E). cbn in Hm.
        apply IH; [apply prun_inv; auto | auto | lia].
  Qed.

  (* no deadlock: a run that is not terminated can always be extended by an effective step *)
  Theorem no_deadlock : forall sched s, Inv s -> terminated (prun s sched) = false ->
    exists t, In t threads /\ enabled (prun s sched) t = true.
  Proof. intros. apply H_live; [apply prun_inv; auto | auto]. Qed.
End ProgressProofs.
