From Coq Require Import List Bool Arith NArith ZArith Lia String.
From Coq.Strings Require Import Byte.
From Verif.Base Require Import Bytes Outcome Str.
From Verif.Model Require Import IE Codec Decode Frame.
From Verif.Proofs Require Import Frame_lemmas.
From Verif.Driver Require Import Show C11drv.
Import ListNotations.
Local Notation length := List.length.

(* decodePacket rejects the empty frame: the 20-byte header cannot be read *)
Lemma c11_decode_nonempty : forall tm, snd (c11_decode tm []) = None.
Proof. intros tm. reflexivity. Qed.

Lemma concat_cut_at : forall cuts prev s, List.concat (cut_at prev cuts s) = s.
Proof.
  induction cuts as [|c r IH]; intros prev s; cbn [cut_at List.concat].
  - apply app_nil_r.
  - rewrite IH. apply firstn_skipn.
Qed.

Lemma concat_split_lens : forall lens s,
  fold_right Nat.add 0 lens = length s -> List.concat (split_lens lens s) = s.
Proof.
  induction lens as [|n r IH]; intros s H; cbn [split_lens List.concat fold_right] in *.
  - destruct s; [reflexivity|discriminate].
  - rewrite IH; [apply firstn_skipn|]. rewrite skipn_length. lia.
Qed.

Lemma frames_wf_forall c : frames_wf c = true ->
  Forall wf_frame (split_lens (k_msgs c) (k_stream c)) /\
  List.concat (split_lens (k_msgs c) (k_stream c)) = k_stream c.
Proof.
  unfold frames_wf. intros H. apply andb_true_iff in H as [H1 H2]. split.
  - rewrite forallb_forall in H1. apply Forall_forall. intros f Hf. specialize (H1 f Hf).
    unfold wf_frame. destruct (frame_len f) as [n|]; [|discriminate].
    apply Nat.eqb_eq in H1. congruence.
  - apply concat_split_lens. now apply Nat.eqb_eq.
Qed.

(* segmentation independence, instantiated: feeding any cut of the stream = the whole stream *)
Lemma c11_segmentation : forall segs tm,
  same_delivery tmap msg
    (fold_left (feed tmap msg c11_decode) segs (init tmap msg tm))
    (whole tmap msg c11_decode tm (List.concat segs)).
Proof. intros. apply segmentation_independent. exact c11_decode_nonempty. Qed.

(* the collector instance, composed: whatever the segmentation of the sender's well-framed
   messages, the reader delivers exactly the messages decoded one by one up to the first
   undecodable one, ends closed exactly in that case, and leaves the template table in the
   state sequential processing leaves it *)
Theorem c11_tcp : forall fs segs tm, Forall wf_frame fs -> List.concat segs = List.concat fs ->
  let st := fold_left (feed tmap msg c11_decode) segs (init tmap msg tm) in
  let '(tm', ms, rest, c) := deliver tmap msg c11_decode tm fs in
  r_out _ _ st = ms /\ r_closed _ _ st = c /\ r_dec _ _ st = tm'.
Proof.
  intros fs segs tm Fw E. cbv zeta.
  destruct (c11_segmentation segs tm) as (Ho & Hc & Hd & _).
  rewrite Ho, Hc, Hd, E. unfold whole.
  rewrite (frames_exact tmap msg c11_decode c11_decode_nonempty fs tm Fw).
  destruct (deliver tmap msg c11_decode tm fs) as [[[tm' ms] rest] c].
  cbn [r_out r_closed r_dec]. auto.
Qed.

Lemma other_wf_forall c : other_wf c = true -> Forall wf_frame (k_other c).
Proof.
  unfold other_wf. intros H. rewrite forallb_forall in H. apply Forall_forall. intros f Hf.
  specialize (H f Hf). unfold wf_frame. destruct (frame_len f) as [n|]; [|discriminate].
  apply Nat.eqb_eq in H. congruence.
Qed.

Lemma c11_model_spec c : frames_wf c = true -> other_wf c = true -> c11_model c = c11_spec c.
Proof.
  intros W W2. destruct (frames_wf_forall c W) as [Fw Ec]. pose proof (other_wf_forall c W2) as Fo.
  unfold c11_model, c11_spec, show_result.
  pose proof (c11_tcp (split_lens (k_msgs c) (k_stream c)) (cut_at 0 (k_cuts c) (k_stream c)) [] Fw) as T1.
  rewrite concat_cut_at, Ec in T1. specialize (T1 eq_refl). cbv zeta in T1.
  destruct (deliver tmap msg c11_decode [] (split_lens (k_msgs c) (k_stream c))) as [[[tm ms] rest] cl].
  destruct T1 as (Ho & Hc & Hd). rewrite Ho, Hc, Hd.
  pose proof (c11_tcp (k_other c) (k_other c) tm Fo eq_refl) as T2. cbv zeta in T2.
  destruct (deliver tmap msg c11_decode tm (k_other c)) as [[[tm2 ms2] rest2] cl2].
  destruct T2 as (Ho2 & Hc2 & _). rewrite Ho2, Hc2. reflexivity.
Qed.

Lemma C11_oracle_lemma c : C11_holds_on c (c11_model c) = true.
Proof.
  unfold C11_holds_on. destruct (frames_wf c) eqn:W; [|reflexivity].
  destruct (other_wf c) eqn:W2; [|reflexivity]. cbn [andb].
  rewrite (c11_model_spec c W W2). apply String.eqb_refl.
Qed.
