(* C16, decoding variant: the per-case oracle (C16D_holds_on) holds on the model's own
   observation, for every operation sequence. *)
From Coq Require Import List Bool Arith NArith ZArith Lia String.
From Coq Require Import ZifyN ZifyNat ZifyBool.
From Coq.Strings Require Import Byte.
From Verif.Base Require Import Bytes Outcome Str.
From Verif.Model Require Import IE Codec Record SetB Msg SetDec.
From Verif.Proofs Require Import Bytes_lemmas Codec_lemmas SetB_lemmas SetDec_lemmas C16_lemmas.
From Verif.Driver Require Import Show SetShow C16drv.
Import ListNotations.
Local Open Scope N_scope.
Local Notation length := List.length.

Lemma dstep_n_run s o k : dstep_n s o k = drun s (repeat o k).
Proof. revert s. induction k as [|k IH]; intros s; [reflexivity|]. cbn [dstep_n repeat]. now rewrite IH. Qed.

Lemma sum_dr_len_rev l : sum_dr_len (rev l) = sum_dr_len l.
Proof.
  unfold sum_dr_len. induction l as [|x r IH]; [reflexivity|]. cbn [rev].
  rewrite fold_right_app. cbn [fold_right]. rewrite <- IH.
  generalize (rev r). intros m. induction m as [|y m IHm]; cbn [fold_right]; lia.
Qed.

Lemma dsnap_ok_model ops a b c :
  dsnap_ok (has_reset ops) (dsnap_of (drun dnew ops) a b c) = true.
Proof.
  set (s := drun dnew ops).
  assert (Sh : Forall dshape (d_rrecs s)) by (apply dshape_run; constructor).
  assert (Ge : sum_dr_len (d_rrecs s) <= d_len s) by (apply dec_length_ge; cbn; lia).
  assert (Sum : sum_rlen (sn_recs (dsnap_of s a b c)) = sum_dr_len (d_rrecs s)).
  { unfold dsnap_of, snap_of. cbn [sn_recs]. rewrite sum_rlen_map, s_recs_rev. cbn [as_setb s_rrecs].
    rewrite sum_rec_len_rev. apply sum_to_rec. }
  unfold dsnap_ok. rewrite Sum.
  apply andb_true_iff. split; [apply andb_true_iff; split; [apply andb_true_iff; split|]|].
  - reflexivity.
  - unfold dsnap_of, snap_of. cbn [sn_recs]. apply forallb_forall. intros x Hx.
    apply in_map_iff in Hx as (r & <- & Hr). rewrite s_recs_rev in Hr. apply in_rev in Hr.
    cbn [as_setb s_rrecs] in Hr. apply in_map_iff in Hr as (d & <- & Hd).
    rewrite Forall_forall in Sh. specialize (Sh d Hd).
    destruct d as [[tid fc els buf m|tid fc els len]|tid fc els]; cbn in Sh; try discriminate.
    + unfold rsnap_of. cbn. rewrite N.eqb_refl. reflexivity.
    + reflexivity.
  - unfold dsnap_of, snap_of. cbn [sn_len as_setb s_len]. lia.
  - destruct (has_reset ops) eqn:R; [reflexivity|]. cbn [orb].
    unfold dsnap_of, snap_of. cbn [sn_len as_setb s_len]. apply N.eqb_eq.
    apply dec_length_eq; [exact R|reflexivity].
Qed.

Theorem c16d_model_holds ds : forall s all,
  s = drun dnew (rev' all) -> C16D_holds_on ds all (c16d_items ds s all) = true.
Proof.
  induction ds as [|d r IH]; intros s all Hs; [reflexivity|].
  destruct d as [o n|a b c].
  - cbn [c16d_items C16D_holds_on]. apply IH.
    rewrite dstep_n_run, !rev'_eq, rev_app_distr, rev_repeat, drun_app, <- rev'_eq, <- Hs. reflexivity.
  - cbn [c16d_items C16D_holds_on]. rewrite (IH s all Hs), andb_true_r. subst s.
    rewrite dsnap_ok_model. cbn [andb].
    destruct (forms_hyp STemplate (rev' all)) eqn:Fh; [|reflexivity]. cbn [implb].
    assert (E : forall fm, form_ok fm = true ->
                drun dnew (reform (repeat fm (length all)) (rev' all)) = drun dnew (rev' all)).
    { intros fm Hfm. apply dreform_run; [exact Fh|now apply Forall_repeat]. }
    unfold forced_forms. cbn [forallb]. rewrite !E by reflexivity.
    rewrite !String.eqb_refl. reflexivity.
Qed.

Theorem C16_decoding_builder_lemma ds : C16D_holds_on ds [] (c16d_items ds dnew []) = true.
Proof. now apply c16d_model_holds. Qed.
