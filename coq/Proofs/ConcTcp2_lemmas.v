(* TCP/TLS interleaving model, part 2: delivery, wait group, clients map, progress. *)
From Coq Require Import List Bool Arith Lia.
From Verif.Model Require Import ConcCollector.
From Verif.Proofs Require Import ConcCollector_lemmas ConcTcp_lemmas.
Import ListNotations.

(* ------------------------------------------------------------------------------------------ *)
(* delivery invariant *)
Lemma spec_app_step : forall tpl m rest,
  spec tpl (m :: rest) = if dec_ok tpl (snd m) then fst m :: spec (dec_tpl tpl (snd m)) rest else [].
Proof. reflexivity. Qed.

Lemma deliv_ok_step : forall cfg dr s t s',
  forallb (conn_ok (t_stopped s)) (t_conns s) = true ->
  deliv_ok cfg s -> t_step dr s t = Some s' -> deliv_ok cfg s'.
Proof.
  intros cfg dr s t s' C D H. destruct s. unfold t_step in H. simpl in H. simpl in C.
  unfold deliv_ok in *; simpl in *.
  destruct t; step_cases H; simpl; try assumption;
    intros j cj Hj;
    (erewrite nth_error_upd in Hj by eassumption);
    (match type of Hj with context [Nat.eqb j ?i] => destruct (Nat.eqb_spec j i) as [->|Hne] end;
     [ inversion Hj; subst cj; clear Hj;
       match goal with Hn : nth_error _ _ = Some ?c |- _ =>
         pose proof (forallb_nth _ _ _ _ _ C Hn) as K; split_ok K;
         destruct (D _ _ Hn) as [D1 [cc [D2 D3]]] end
     | try (rewrite proj_app; match goal with |- context [Nat.eqb ?a j] => destruct (Nat.eqb_spec a j); [congruence|] end); apply D; assumption ]).
  all: try (split; [| exists cc; split; auto]).
  all: try (intro rest; specialize (D1 rest); unfold cont in *; destruct c; simpl in *; subst; simpl in *; assumption).
  all: destruct c; simpl in *; subst; simpl in *.
  all: try (intro rest; unfold cont in *; simpl in * ).
  all: try (destruct k_exit; simpl in *; try discriminate).
  all: try (destruct k_r; simpl in *; try discriminate; apply D1).
  all: try (rewrite <- !app_assoc; simpl; rewrite <- ?app_assoc; simpl; assumption).
  all: try (specialize (D1 (m :: rest)); simpl in D1;
            match type of D1 with context [dec_ok ?a ?b] => destruct (dec_ok a b) eqn:? end; try discriminate;
            rewrite <- app_assoc; simpl; assumption).
  all: try (rewrite proj_app, Nat.eqb_refl; rewrite <- app_assoc; simpl; apply D1).
  all: apply D1.
Qed.

(* ------------------------------------------------------------------------------------------ *)
(* backlog / accept-hold / clients map *)
Lemma NoDup_snoc : forall (l : list nat) i, NoDup l -> ~ In i l -> NoDup (l ++ [i]).
Proof.
  induction l; simpl; intros.
  - constructor; auto.
  - inversion H; subst. constructor.
    + intro Hin. apply in_app_or in Hin. destruct Hin as [Hin|[Hin|[]]].
      * auto.
      * subst. apply H0. left; auto.
    + apply IHl; auto.
Qed.

Ltac upd_ex Hold :=
  let c0 := fresh "c0" in let E1 := fresh "E1" in let E2 := fresh "E2" in
  destruct Hold as [c0 [E1 E2]];
  erewrite nth_error_upd by eassumption;
  match goal with |- context [Nat.eqb ?j ?i] => destruct (Nat.eqb_spec j i) as [->|] end;
  [ match goal with Hn : nth_error ?l ?i = Some ?c, E : nth_error ?l ?i = Some c0 |- _ =>
      rewrite Hn in E; inversion E; subst c0; clear E;
      eexists; split; [reflexivity|]; destruct c; simpl in *; subst; simpl in *; intuition (try congruence) end
  | eexists; split; [eassumption|]; assumption ].

Lemma struct_ok_step : forall dr s t s',
  forallb (conn_ok (t_stopped s)) (t_conns s) = true ->
  backlog_ok s -> acchold_ok s -> clients_ok s ->
  t_step dr s t = Some s' -> backlog_ok s' /\ acchold_ok s' /\ clients_ok s'.
Proof.
  intros dr s t s' C [B1 B2] A L H. destruct s. unfold t_step in H. simpl in H. simpl in C.
  unfold backlog_ok, acchold_ok, clients_ok in *; simpl in *.
  destruct t; step_cases H; simpl; try (split; [split|split]; assumption).
  all: try match goal with Hn : nth_error _ _ = Some ?c |- _ =>
         pose proof (forallb_nth _ _ _ _ _ C Hn) as K; split_ok K end.
  all: split; [split|split].
  all: try assumption.
  all: try exact I.
  all: try (intros j Hin; upd_ex (B2 j Hin); fail).
  all: try (intros j Hin; upd_ex (L j Hin); fail).
  all: try (destruct t_acc; try exact I; upd_ex A; fail).
  - inversion B1; assumption.
  - intros j Hin. inversion B1; subst.
    assert (j <> n) by (intro; subst; contradiction).
    destruct (B2 j (or_intror Hin)) as [c0 [E1 E2]]. exists c0.
    rewrite nth_error_upd_other by auto. auto.
  - eexists; split; [eapply nth_error_upd_same; eauto|]. simpl.
    destruct (B2 n (or_introl eq_refl)) as [c0 [E1 [E2 E3]]].
    assert (c0 = c) by congruence; subst c0.
    destruct c; simpl in *; subst. destruct k_h; simpl in *; try discriminate; auto.
  - intros j Hin. destruct (L j Hin) as [c0 [E1 E2]]. destruct A as [ca [A1 [A2 A3]]].
    destruct (Nat.eq_dec j i) as [->|].
    + assert (c0 = ca) by congruence; subst c0. rewrite A2 in E2. discriminate.
    + exists c0. rewrite nth_error_upd_other by auto. auto.
  - intros j [<-|Hin].
    + eexists; split; [eapply nth_error_upd_same; eauto|]. reflexivity.
    + destruct (L j Hin) as [c0 [E1 E2]]. destruct (Nat.eq_dec j i) as [->|].
      * eexists; split; [eapply nth_error_upd_same; eauto|]. reflexivity.
      * exists c0. rewrite nth_error_upd_other by auto. auto.
  - intros j Hin. apply in_remove in Hin. destruct Hin as [Hin Hne].
    destruct (L j Hin) as [c0 [E1 E2]]. exists c0. rewrite nth_error_upd_other by auto. auto.
  - apply NoDup_snoc; auto. intro Hin. destruct (B2 i Hin) as [c0 [E1 [E2 E3]]].
    assert (c0 = c) by congruence; subst c0. congruence.
  - intros j Hin. apply in_app_or in Hin. destruct Hin as [Hin|[<-|[]]].
    + destruct (B2 j Hin) as [c0 [E1 [E2 E3]]]. destruct (Nat.eq_dec j i) as [->|].
      * assert (c0 = c) by congruence; subst c0. congruence.
      * exists c0. rewrite nth_error_upd_other by auto. auto.
    + eexists; split; [eapply nth_error_upd_same; eauto|]. simpl.
      destruct c; simpl in *; subst. simpl in *. destruct k_acc; simpl in *; try discriminate.
      split; auto. discriminate.
Qed.

(* ------------------------------------------------------------------------------------------ *)
(* the invariant over every schedule *)
Record TInv0 (cfg : list ccfg) (s : tstate) : Prop := mkTInv0 {
  j_glob : glob_ok s = true;
  j_conn : forallb (conn_ok (t_stopped s)) (t_conns s) = true;
  j_backlog : backlog_ok s;
  j_acchold : acchold_ok s;
  j_clients : clients_ok s;
  j_deliv : deliv_ok cfg s }.

Lemma tinv0_init : forall cfg, TInv0 cfg (t_init cfg).
Proof. intros. destruct (t_init_inv cfg). constructor; auto. Qed.

Lemma tinv0_step : forall cfg dr s t s', TInv0 cfg s -> t_step dr s t = Some s' -> TInv0 cfg s'.
Proof.
  intros cfg dr s t s' [G C B A L D] H.
  destruct (struct_ok_step _ _ _ _ C B A L H) as [B' [A' L']].
  constructor; auto.
  - eapply glob_ok_step; eauto.
  - eapply conn_ok_step; eauto.
  - eapply deliv_ok_step; eauto.
Qed.

Lemma tinv0_run : forall cfg dr sched s, TInv0 cfg s -> TInv0 cfg (t_run dr sched s).
Proof.
  induction sched; simpl; intros; auto. apply IHsched. unfold t_exec.
  destruct (t_step dr s a) eqn:E; auto. eapply tinv0_step; eauto.
Qed.

Lemma tinv0_reach : forall cfg dr sched, TInv0 cfg (t_run dr sched (t_init cfg)).
Proof. intros. apply tinv0_run, tinv0_init. Qed.

(* (1) safety, any moment, any schedule: what the consumer got from connection i is a prefix of
   what that connection's stream must deliver - in order, no duplicate, nothing invented *)
Lemma tcp_delivery_prefix_lemma : forall cfg dr sched i c cc,
  let s := t_run dr sched (t_init cfg) in
  nth_error (t_conns s) i = Some c -> nth_error cfg i = Some cc ->
  exists tail, spec false (number 0 (c_msgs cc)) = proj i (t_log s) ++ tail.
Proof.
  intros cfg dr sched i c cc s Hc Hcc.
  destruct (tinv0_reach cfg dr sched) as [_ _ _ _ _ D]. fold s in D.
  destruct (D _ _ Hc) as [D1 [cc' [E1 E2]]]. assert (cc' = cc) by congruence. subst cc'.
  rewrite <- E2. rewrite D1. eauto.
Qed.

(* (2) exactly once: when the reader left its loop because the exporter closed (EOF, also in the
   middle of a frame) or because a message did not decode, everything the stream owed has been
   delivered *)
Lemma tcp_delivery_exact_lemma : forall cfg dr sched i c cc,
  let s := t_run dr sched (t_init cfg) in
  nth_error (t_conns s) i = Some c -> nth_error cfg i = Some cc ->
  (k_exit c = XEof \/ k_exit c = XFail) ->
  proj i (t_log s) = spec false (number 0 (c_msgs cc)).
Proof.
  intros cfg dr sched i c cc s Hc Hcc Hx.
  destruct (tinv0_reach cfg dr sched) as [_ C _ _ _ D]. fold s in D, C.
  destruct (D _ _ Hc) as [D1 [cc' [E1 E2]]]. assert (cc' = cc) by congruence. subst cc'.
  pose proof (forallb_nth _ _ _ _ _ C Hc) as K. split_ok K.
  rewrite <- E2. rewrite D1. unfold cont. destruct Hx as [Hx|Hx]; rewrite Hx in *; simpl in *.
  - destruct (k_queue c); simpl in *; try discriminate. destruct (k_unsent c); simpl in *; try discriminate.
    destruct (k_r c); simpl in *; try discriminate; rewrite app_nil_r; reflexivity.
  - rewrite app_nil_r; reflexivity.
Qed.

(* (3) before Stop, a reader only ever leaves its loop for one of those two reasons; and an idle
   reader (blocked in Read with nothing in flight and nothing more to come) has delivered all *)
Lemma tcp_exit_natural_lemma : forall cfg dr sched i c,
  let s := t_run dr sched (t_init cfg) in
  nth_error (t_conns s) i = Some c -> t_stopped s = false -> r_exited (k_r c) = true ->
  k_exit c = XEof \/ k_exit c = XFail.
Proof.
  intros cfg dr sched i c s Hc Hs Hr.
  destruct (tinv0_reach cfg dr sched) as [_ C _ _ _ _]. fold s in C.
  pose proof (forallb_nth _ _ _ _ _ C Hc) as K. split_ok K. rewrite Hs, Hr in *.
  destruct (k_exit c); simpl in *; try discriminate; auto.
Qed.

Lemma tcp_idle_complete_lemma : forall cfg dr sched i c cc,
  let s := t_run dr sched (t_init cfg) in
  nth_error (t_conns s) i = Some c -> nth_error cfg i = Some cc ->
  k_r c = R0 -> k_queue c = [] -> k_unsent c = [] ->
  proj i (t_log s) = spec false (number 0 (c_msgs cc)).
Proof.
  intros cfg dr sched i c cc s Hc Hcc Hr Hq Hu.
  destruct (tinv0_reach cfg dr sched) as [_ C _ _ _ D]. fold s in D, C.
  destruct (D _ _ Hc) as [D1 [cc' [E1 E2]]]. assert (cc' = cc) by congruence. subst cc'.
  pose proof (forallb_nth _ _ _ _ _ C Hc) as K. split_ok K.
  rewrite <- E2, Hq, Hu. simpl. rewrite D1. unfold cont. rewrite Hr in *. simpl in *.
  destruct (k_exit c); simpl in *; try discriminate; rewrite app_nil_r; reflexivity.
Qed.

(* (4) the clients map only ever holds connections whose handler is between its registration and
   its deferred delete: once every handler has returned (or never started) it is empty *)
Lemma tcp_clients_zero_lemma : forall cfg dr sched,
  let s := t_run dr sched (t_init cfg) in
  (forall c, In c (t_conns s) -> h_reg (k_h c) = false) -> t_clients s = [].
Proof.
  intros cfg dr sched s H.
  destruct (tinv0_reach cfg dr sched) as [_ _ _ _ L _]. fold s in L.
  destruct (t_clients s) as [|j r] eqn:E; auto.
  destruct (L j) as [c [E1 E2]]. { rewrite E. left; auto. }
  apply nth_error_In in E1. rewrite (H _ E1) in E2. discriminate.
Qed.
