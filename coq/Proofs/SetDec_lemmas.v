(* The decoding variant of the set builder (Model/SetDec.v). *)
From Coq Require Import List Bool Arith NArith ZArith Lia String.
From Coq Require Import ZifyN ZifyNat ZifyBool.
From Coq.Strings Require Import Byte.
From Verif.Base Require Import Bytes Outcome.
From Verif.Model Require Import IE Codec Record SetB Msg SetDec.
From Verif.Proofs Require Import Bytes_lemmas Codec_lemmas SetB_lemmas.
Import ListNotations.
Local Open Scope N_scope.
Local Notation length := List.length.

Lemma drun_app s a b : drun s (a ++ b) = drun (drun s a) b.
Proof. unfold drun. apply fold_left_app. Qed.

(* every data record of a decoding set has length 0 and the nil buffer; every template record's
   buffer is its reported length *)
Theorem dec_record_buffers (r : drecd) :
  match r with
  | DDat _ _ _ => dr_len r = 0 /\ dr_buffer r = Ok []
  | DTpl (TRec _ _ _ buf _) => dr_buffer r = Ok buf /\ blen buf = dr_len r
  | DTpl (DRec _ _ _ _) => True
  end.
Proof. destruct r as [[? ? ? buf ?|? ? ? ?]|? ? ?]; cbn; auto. Qed.

(* only template records are wrapped by DTpl *)
Definition dshape (r : drecd) : Prop := match r with DTpl r => rec_is_data r = false | DDat _ _ _ => True end.

Lemma build_template_is_tpl f els id r : build_record STemplate f els id = Ok r -> rec_is_data r = false.
Proof.
  cbn [build_record]. destruct f; unfold tpl_record_v1, tpl_record_v2.
  - destruct (prepare_record _ _ _); cbn [obind]; try discriminate.
    destruct (tpl_add_v1 _ _ _) as [[b m]| | |]; cbn [obind]; try discriminate. now intros [= <-].
  - destruct (prepare_record _ _ _); cbn [obind]; try discriminate.
    destruct (tpl_add_v1 _ _ _) as [[b m]| | |]; cbn [obind]; try discriminate. now intros [= <-].
  - destruct (tpl_add_v2 _ _ _) as [b m]. destruct (prepare_record _ _ _); cbn [obind]; try discriminate.
    now intros [= <-].
Qed.

Lemma dbuild_shape t f els id r : dbuild t f els id = Ok r -> dshape r.
Proof.
  destruct t; cbn [dbuild].
  - destruct (build_record STemplate f els id) eqn:E; cbn [omap]; try discriminate.
    intros [= <-]. cbn. eapply build_template_is_tpl; eassumption.
  - destruct f; try (intros [= <-]; exact I). destruct (k <? 0)%Z; [discriminate|]. intros [= <-]. exact I.
  - discriminate.
Qed.

(* the length bookkeeping of a decoding set: ResetSet does not clear it, so the reported length
   is the sum of the present records' lengths plus what earlier cycles left behind *)

Lemma dstep_len s o :
  sum_dr_len (d_rrecs s) <= d_len s ->
  sum_dr_len (d_rrecs (fst (dstep s o))) <= d_len (fst (dstep s o)).
Proof.
  intros H. destruct o as [t id|f els id| |]; cbn [dstep].
  - destruct t; cbn; exact H.
  - destruct (dbuild _ _ _ _); cbn [fst]; try exact H. cbn [d_rrecs d_len sum_dr_len fold_right].
    unfold sum_dr_len in H. lia.
  - exact H.
  - cbn. lia.
Qed.

Theorem dec_length_ge ops : forall s,
  sum_dr_len (d_rrecs s) <= d_len s -> sum_dr_len (d_rrecs (drun s ops)) <= d_len (drun s ops).
Proof.
  unfold drun. induction ops as [|o r IH]; intros s H; cbn [fold_left]; [exact H|].
  apply IH. now apply dstep_len.
Qed.

Theorem dec_length_eq ops : forall s,
  has_reset ops = false -> d_len s = sum_dr_len (d_rrecs s) ->
  d_len (drun s ops) = sum_dr_len (d_rrecs (drun s ops)).
Proof.
  unfold drun. induction ops as [|o r IH]; intros s Hr H; cbn [fold_left]; [exact H|].
  destruct o as [t id|f els id| |]; cbn [has_reset] in Hr; try discriminate; apply IH; try exact Hr; cbn [dstep].
  - destruct t; cbn; exact H.
  - destruct (dbuild _ _ _ _); cbn [fst]; try exact H. cbn [d_rrecs d_len sum_dr_len fold_right].
    unfold sum_dr_len in H. lia.
  - exact H.
Qed.

(* a decoding set that never had type Template (prepared as a data set, never re-prepared as a
   template set) keeps length 0 whatever is added: AddRecord / AddRecordV2 / ...WithExtraElements *)
Fixpoint no_tpl_prepare (ops : list op) : bool :=
  match ops with [] => true | OPrepare STemplate _ :: _ => false | _ :: r => no_tpl_prepare r end.

Lemma dbuild_nontpl_len t f els id r : t <> STemplate -> dbuild t f els id = Ok r -> exists a b, r = DDat a b els.
Proof.
  destruct t; [congruence| |discriminate]. intros _. cbn [dbuild].
  destruct f; try (intros [= <-]; eauto). destruct (k <? 0)%Z; [discriminate|]. intros [= <-]. eauto.
Qed.

Theorem dec_data_sets ops : forall s,
  d_type s <> STemplate -> no_tpl_prepare ops = true ->
  Forall (fun r => dr_len r = 0 /\ dr_buffer r = Ok []) (d_rrecs s) ->
  d_len (drun s ops) = d_len s /\
  Forall (fun r => dr_len r = 0 /\ dr_buffer r = Ok []) (d_rrecs (drun s ops)).
Proof.
  unfold drun. induction ops as [|o r IH]; intros s Ht Hn F; cbn [fold_left]; [auto|].
  destruct o as [t id|f els id| |]; cbn [no_tpl_prepare] in Hn.
  - destruct t; try discriminate; cbn [dstep fst].
    + apply (IH (mkD SData (d_rrecs s) (d_len s))); [discriminate|exact Hn|exact F].
    + apply IH; assumption.
  - cbn [dstep]. destruct (dbuild (d_type s) f els id) as [x| | |] eqn:E; cbn [fst]; try (apply IH; assumption).
    destruct (dbuild_nontpl_len _ _ _ _ _ Ht E) as (a & b & ->).
    destruct (IH (mkD (d_type s) (DDat a b els :: d_rrecs s) (d_len s + dr_len (DDat a b els))) Ht Hn) as [L G].
    { constructor; [split; reflexivity|exact F]. }
    split; [|exact G]. rewrite L. cbn [d_len dr_len]. lia.
  - cbn [dstep fst]. apply IH; assumption.
  - cbn [dstep fst]. destruct (IH (mkD SUndefined [] (d_len s))) as [L G]; try assumption; try discriminate; [constructor|].
    split; [exact L|exact G].
Qed.

(* the three add forms build the same decoding set *)
Lemma dbuild_form t f g els id :
  form_ok f = true -> form_ok g = true ->
  (t = STemplate -> forallb (fun ev => is_empty (snd ev)) els = true) ->
  dbuild t f els id = dbuild t g els id.
Proof.
  intros Hf Hg He. destruct t; cbn [dbuild].
  - now rewrite (build_record_form STemplate f g els id Hf Hg He).
  - destruct f, g; cbn [form_ok] in *; try reflexivity;
      repeat match goal with |- context [(?k <? 0)%Z] => destruct (Z.ltb_spec k 0); [lia|] end; reflexivity.
  - reflexivity.
Qed.

Lemma dstep_type_add s f els id : d_type (fst (dstep s (OAdd f els id))) = d_type s.
Proof. cbn [dstep]. destruct (dbuild _ _ _ _); reflexivity. Qed.

Theorem dreform_run ops : forall g s,
  forms_hyp (d_type s) ops = true -> Forall (fun f => form_ok f = true) g ->
  drun s (reform g ops) = drun s ops.
Proof.
  induction ops as [|o r IH]; intros g s Hh Hg; [reflexivity|].
  destruct o as [t id|f els id| |]; cbn [reform forms_hyp] in *.
  - change (drun s (OPrepare t id :: reform g r)) with (drun (fst (dstep s (OPrepare t id))) (reform g r)).
    change (drun s (OPrepare t id :: r)) with (drun (fst (dstep s (OPrepare t id))) r).
    apply IH; [|exact Hg]. destruct t; cbn [dstep fst d_type]; exact Hh.
  - apply andb_true_iff in Hh as [Hh H3]. apply andb_true_iff in Hh as [H1 H2].
    assert (St : forall f', form_ok f' = true -> dstep s (OAdd f' els id) = dstep s (OAdd f els id)).
    { intros f' Hf'. cbn [dstep]. rewrite (dbuild_form (d_type s) f' f els id Hf' H1); [reflexivity|].
      intros Et. rewrite Et in H2. exact H2. }
    destruct g as [|f' g'].
    + rewrite reform_nil. reflexivity.
    + inversion Hg as [|? ? Hf' Hg']; subst.
      change (drun s (OAdd f' els id :: reform g' r)) with (drun (fst (dstep s (OAdd f' els id))) (reform g' r)).
      change (drun s (OAdd f els id :: r)) with (drun (fst (dstep s (OAdd f els id))) r).
      rewrite (St f' Hf'). apply IH; [|exact Hg']. rewrite dstep_type_add. exact H3.
  - change (drun s (OUpdLen :: reform g r)) with (drun (fst (dstep s OUpdLen)) (reform g r)).
    change (drun s (OUpdLen :: r)) with (drun (fst (dstep s OUpdLen)) r).
    apply IH; [|exact Hg]. exact Hh.
  - change (drun s (OReset :: reform g r)) with (drun (fst (dstep s OReset)) (reform g r)).
    change (drun s (OReset :: r)) with (drun (fst (dstep s OReset)) r).
    apply IH; [|exact Hg]. exact Hh.
Qed.

(* ResetSet leaves the length of a decoding set as it was: the law "length = 4 + sum of the
   records' lengths" of the exporting side does not hold for decoding sets (neither the 4 nor,
   after a reset, the sum) *)
Theorem dec_reset_keeps_length s : d_len (fst (dstep s OReset)) = d_len s /\ d_rrecs (fst (dstep s OReset)) = [].
Proof. split; reflexivity. Qed.

Lemma dshape_run ops : forall s, Forall dshape (d_rrecs s) -> Forall dshape (d_rrecs (drun s ops)).
Proof.
  unfold drun. induction ops as [|o r IH]; intros s H; cbn [fold_left]; [exact H|]. apply IH.
  destruct o as [t id|f els id| |]; cbn [dstep].
  - destruct t; exact H.
  - destruct (dbuild _ _ _ _) eqn:E; cbn [fst]; try exact H.
    cbn [d_rrecs]. constructor; [eapply dbuild_shape; eassumption|exact H].
  - exact H.
  - constructor.
Qed.

Lemma sum_to_rec l : sum_rec_len (map to_rec l) = sum_dr_len l.
Proof.
  unfold sum_rec_len, sum_dr_len. induction l as [|r l IH]; [reflexivity|].
  cbn [map fold_right]. rewrite IH. destruct r; reflexivity.
Qed.
