(* C02 at the level of the API calls: PrepareSet(Data, tid), then one add per record in any of
   the three forms, then SendSet. *)
From Coq Require Import List Bool Arith NArith ZArith Lia String.
From Coq Require Import ZifyN ZifyNat ZifyBool.
From Coq.Strings Require Import Byte.
From Verif.Base Require Import Bytes Outcome.
From Verif.Model Require Import IE Codec Record SetB Msg Exporter Rfc7011.
From Verif.Proofs Require Import Bytes_lemmas Codec_lemmas SetB_lemmas Exporter_lemmas C08_lemmas Rfc_lemmas RfcData_lemmas.
Import ListNotations.
Local Open Scope N_scope.
Local Notation length := List.length.

Definition add_ops (tid : N) (frs : list (addform * list (ie * value))) : list op :=
  map (fun fr => OAdd (fst fr) (snd fr) tid) frs.
Definition api_rec (tid : N) (fr : addform * list (ie * value)) : rec :=
  DRec (u16 tid) (u16 (nels (snd fr))) (snd fr) (record_len (snd fr)).

Lemma build_data_record f els id :
  form_ok f = true ->
  build_record SData f els id = Ok (DRec (u16 id) (u16 (nels els)) els (record_len els)).
Proof.
  intros Hf. destruct f; cbn [build_record form_ok] in *; unfold data_record_v1, data_record_v2.
  - cbn [Z.ltb Z.compare]. now rewrite data_len_v1_eq.
  - destruct (Z.ltb_spec k 0); [lia|]. now rewrite data_len_v1_eq.
  - now rewrite data_len_v2_eq.
Qed.

Lemma run_data_adds tid : forall frs s,
  s_type s = SData -> Forall (fun fr => form_ok (fst fr) = true) frs ->
  s_rrecs (run s (add_ops tid frs)) = rev (map (api_rec tid) frs) ++ s_rrecs s.
Proof.
  unfold run, add_ops. induction frs as [|[f els] r IH]; intros s Ty F; [reflexivity|].
  inversion F as [|? ? Hf F']; subst. cbn [fst snd] in Hf.
  cbn [map fold_left fst snd]. cbn [step]. rewrite Ty, (build_data_record f els tid Hf). cbn [fst].
  rewrite IH by (try reflexivity; exact F'). cbn [s_rrecs map rev]. rewrite <- app_assoc. reflexivity.
Qed.

Lemma add_ops_keep tid frs : forallb keeps_id (add_ops tid frs) = true.
Proof. unfold add_ops. induction frs; cbn; auto. Qed.

Theorem data_exchange widths st tid frs t bytes ws :
  let s := set_of (OPrepare SData tid :: add_ops tid frs) in
  st_wf st -> r_wire (send_set cur st s t) = Some bytes ->
  256 <= tid < 65536 -> widths tid = Some ws -> Exists (fun w => w <> 0) ws ->
  Forall (fun fr => form_ok (fst fr) = true /\ wf_record (snd fr) = true /\ widths_of (snd fr) = ws) frs ->
  exists d, opt_all (map (fun fr => octets_of (snd fr)) frs) = Some d /\
  rfc_parse widths bytes =
    Some (mkWM 10 (blen bytes) (t mod 2 ^ 32) (seq_next (x_seq st) s mod 2 ^ 32) (x_obs st mod 2 ^ 32)
               tid (blen bytes - 16) (WData d)).
Proof.
  intros s W Hw Ht Hws X F.
  assert (Hid : hdr_id s = tid).
  { unfold s. rewrite set_id_on_wire by apply add_ops_keep. apply N.mod_small. lia. }
  assert (Hr : s_recs s = map (api_rec tid) frs).
  { unfold s, set_of. change (run new_set (OPrepare SData tid :: add_ops tid frs))
      with (run (fst (step new_set (OPrepare SData tid))) (add_ops tid frs)).
    rewrite s_recs_rev, run_data_adds.
    - cbn [step new_set s_hdr create_header]. unfold set_header_len. change (N.to_nat 4) with 4%nat.
      rewrite (put_at_mid' (zeros 4) 0 [] [x00; x00] [x00; x00] (be 2 tid)); try reflexivity.
      cbn [fst s_rrecs]. rewrite app_nil_r, rev_involutive. reflexivity.
    - apply step_prepare_type; [reflexivity|discriminate].
    - apply Forall_forall. intros fr Hin. rewrite Forall_forall in F. now destruct (F fr Hin). }
  destruct (wellformed_data_set_tpl widths st (OPrepare SData tid :: add_ops tid frs) t bytes ws W Hw) as (d & Ed & P).
  - fold s. lia.
  - fold s. now rewrite Hid.
  - exact X.
  - fold s. rewrite Hr. apply Forall_forall. intros r Hin. apply in_map_iff in Hin as (fr & <- & Hfr).
    rewrite Forall_forall in F. destruct (F fr Hfr) as (_ & Wf & Wd). repeat split; assumption.
  - exists d. fold s in Ed, P. rewrite Hid in P. split; [|exact P].
    unfold expected_data in Ed. rewrite Hr, map_map in Ed. exact Ed.
Qed.
