(* C19: the oracle holds on the model's own (structured) observation of every case within the
   hypotheses. *)
From Coq Require Import List Bool Arith NArith ZArith Lia String.
From Coq Require Import ZifyN ZifyNat ZifyBool.
From Coq.Strings Require Import Byte.
From Verif.Base Require Import Bytes Outcome Str.
From Verif.Proofs Require Import Bytes_lemmas Proto_lemmas Kafka_lemmas.
From Verif.Model Require Import IE Proto Kafka.
From Verif.Driver Require Import Show C19drv.
Import ListNotations.
Local Notation length := List.length.

Lemma bytes_eqb_refl a : bytes_eqb a a = true.
Proof. induction a as [|x a IH]; [reflexivity|]. cbn [bytes_eqb]. now rewrite N.eqb_refl, IH. Qed.

Lemma flat_map_ext_in' {A B} (f g : A -> list B) l :
  (forall a, In a l -> f a = g a) -> flat_map f l = flat_map g l.
Proof.
  induction l as [|x l IH]; intros H; [reflexivity|]. cbn [flat_map].
  rewrite (H x (or_introl eq_refl)). f_equal. apply IH. intros a Ha. apply H. now right.
Qed.

Lemma dump_with_ext sch (F G : pkind -> N -> pval) :
  (forall k kd, In (k, kd) sch -> F kd k = G kd k) -> dump_with sch F = dump_with sch G.
Proof.
  intros H. unfold dump_with.
  match goal with |- match ?a with _ => _ end = match ?b with _ => _ end => assert (E : a = b) end.
  { apply flat_map_ext_in'. intros [k kd] Hin. cbn [fst snd]. now rewrite (H k kd Hin). }
  now rewrite E.
Qed.

(* payloads below 4 GiB (the length prefix is uint32(len)) *)
Definition small_case (cs : c19case) : bool :=
  forallb (fun km => (N.of_nat (length (snd km) - 4) <? 4294967296)%N)
          (fst (publish (cs_conv cs) (cs_topic cs) (cs_msgs cs))).

Lemma item_ok_model c topic mr p :
  decodes_to c mr p -> (N.of_nat (length p) < 4294967296)%N ->
  item_ok c topic mr (topic, frame p, consumer c (frame p)) = true.
Proof.
  intros [st' [D G]] Hs. unfold item_ok.
  destruct (frame_prefix_small p Hs) as [Hb Hk].
  rewrite String.eqb_refl, frame_length. cbn [andb].
  replace (Nat.leb 4 (4 + length p)) with true by (symmetry; apply Nat.leb_le; lia). cbn [andb].
  rewrite Hb. replace (4 + length p - 4)%nat with (length p) by lia. rewrite N.eqb_refl. cbn [andb].
  rewrite Hk, D.
  assert (Hall : forallb (fun f => match getf (snd f) (fst f) st', expected_field c (fst mr) (snd mr) (snd f) (fst f) with
                                   | PU a, PU b => N.eqb a b
                                   | PS a, PS b => bytes_eqb a b
                                   | _, _ => false
                                   end) (cv_schema c) = true).
  { apply forallb_forall. intros [k kd] Hin. cbn [fst snd]. rewrite (G k kd Hin).
    destruct (expected_field c (fst mr) (snd mr) kd k); [apply N.eqb_refl|apply bytes_eqb_refl]. }
  rewrite Hall. cbn [andb].
  unfold consumer. rewrite unframe_frame, D. unfold dump.
  rewrite (dump_with_ext (cv_schema c) (fun kd k => getf kd k st') (expected_field c (fst mr) (snd mr))).
  - apply String.eqb_refl.
  - intros k kd Hin. now apply G.
Qed.

Lemma all2_model c topic : forall mrs ps,
  Forall2 (decodes_to c) mrs ps ->
  forallb (fun p => (N.of_nat (length p) <? 4294967296)%N) ps = true ->
  all2 (item_ok c topic) mrs (map (fun km => (fst km, snd km, consumer c (snd km))) (map (fun p => (topic, frame p)) ps)) = true.
Proof.
  induction 1 as [|mr p mrs ps Hd Hrest IH]; intros Hs; [reflexivity|].
  cbn [forallb] in Hs. apply andb_true_iff in Hs. destruct Hs as [Hp Hps]. apply N.ltb_lt in Hp.
  cbn [map all2 fst snd]. rewrite item_ok_model by assumption. cbn [andb]. now apply IH.
Qed.

Lemma C19_trace_lemma cs :
  wf_convertor (cs_conv cs) = true -> cs_spec cs = cs_conv cs ->
  wf_case cs = true -> small_case cs = true ->
  sobs_ok cs (model_sobs cs) = true.
Proof.
  intros Hc Hsp Hwf Hsm. unfold wf_case in Hwf. apply andb_true_iff in Hwf. destruct Hwf as [Ht Hu].
  unfold typed_case, utf8_case in *.
  destruct (kafka_publication (cs_conv cs) (cs_topic cs) (cs_msgs cs) Hc Ht Hu) as [ps [A B]].
  unfold sobs_ok, model_sobs, small_case in *. rewrite A in *. cbn [fst snd negb andb] in *.
  rewrite Hsp. apply all2_model; [exact B|].
  rewrite forallb_forall in *. intros p Hp.
  specialize (Hsm (cs_topic cs, frame p)). cbn [snd] in Hsm. rewrite frame_length in Hsm.
  replace (4 + length p - 4)%nat with (length p) in Hsm by lia.
  apply Hsm. apply in_map_iff. exists p. split; [reflexivity|exact Hp].
Qed.
