(* C05: abstract specification of the aggregation arithmetic.
   Per flow: one accumulator per reporting node and a common part that follows the node with the
   latest end time.  spec_step is positional (lists indexed like StatsElements), the model in
   Model/Agg.v is name-indexed; Proofs/Agg_lemmas.v proves the refinement. *)
From Coq Require Import List Bool Arith NArith ZArith String.
From Verif.Model Require Import Agg.
Import ListNotations.
Local Open Scope string_scope.
Local Open Scope N_scope.
Local Open Scope list_scope.

(* ---------------------------------------------------------------- abstract state *)
Record node_acc := { a_end : N; a_stat : list N; a_tp : list N }.
Record flow_abs := {
  f_src : node_acc; f_dst : node_acc;
  f_end : N; f_stat : list N; f_tp : list N;      (* common part *)
  f_reason : option aval; f_tcp : option aval }.

(* what the arithmetic reads from an incoming record *)
Record rec_obs := { o_start : N; o_end : N; o_stat : list N; o_oct : N; o_roct : N;
                    o_reason : option aval; o_tcp : option aval }.

Definition vu64 (r : record) (n : string) : N := match get r n with Some (AU64 x) => x | _ => 0 end.
Definition vu32 (r : record) (n : string) : N := match get r n with Some (AU32 x) => x | _ => 0 end.

Definition src_end_name := "flowEndSecondsFromSourceNode".
Definition dst_end_name := "flowEndSecondsFromDestinationNode".

Definition abs_node (c : agg_config) (r : record) (src : bool) : node_acc :=
  {| a_end := vu32 r (if src then src_end_name else dst_end_name);
     a_stat := map (vu64 r) (if src then c_src_stats c else c_dst_stats c);
     a_tp := map (vu64 r) (if src then c_src_tp c else c_dst_tp c) |}.
Definition abs (c : agg_config) (r : record) : flow_abs :=
  {| f_src := abs_node c r true; f_dst := abs_node c r false;
     f_end := vu32 r "flowEndSeconds"; f_stat := map (vu64 r) (c_stats c);
     f_tp := map (vu64 r) (c_tp c);
     f_reason := get r "flowEndReason"; f_tcp := get r "tcpState" |}.
Definition obs_of (c : agg_config) (r : record) : rec_obs :=
  {| o_start := vu32 r "flowStartSeconds"; o_end := vu32 r "flowEndSeconds";
     o_stat := map (vu64 r) (c_stats c);
     o_oct := vu64 r "octetTotalCount"; o_roct := vu64 r "reverseOctetTotalCount";
     o_reason := get r "flowEndReason"; o_tcp := get r "tcpState" |}.

(* ---------------------------------------------------------------- positional statistics loop *)
(* per statistics element: is it a delta counter; is its source / destination field one of the
   four octet totals the code singles out by name *)
Record sdesc := { d_delta : bool; d_os : bool; d_rs : bool; d_od : bool; d_rd : bool }.
Definition sdesc_of (e : string * string * string) : sdesc :=
  let '(s, a, b) := e in
  {| d_delta := contains "Delta" s;
     d_os := String.eqb a "octetTotalCountFromSourceNode";
     d_rs := String.eqb a "reverseOctetTotalCountFromSourceNode";
     d_od := String.eqb b "octetTotalCountFromDestinationNode";
     d_rd := String.eqb b "reverseOctetTotalCountFromDestinationNode" |}.

Definition node_upd (delta is_o is_r : bool) (iv ov : N) (acc : N * N) : N * (N * N) :=
  if negb delta then
    (iv, if is_o then (sub64 iv ov, snd acc) else if is_r then (fst acc, sub64 iv ov) else acc)
  else (add64 iv ov, acc).

(* one row: descriptor, incoming value, source / destination / common value before *)
Definition srow := (sdesc * N * N * N * N)%type.
Definition row_step (fs fd latest : bool) (row : srow) (acc : N * N) : (N * N * N) * (N * N) :=
  let '(d, iv, av, bv, cv) := row in
  let p1 := if fs then node_upd (d_delta d) (d_os d) (d_rs d) iv av acc else (av, acc) in
  let p2 := if fd then node_upd (d_delta d) (d_od d) (d_rd d) iv bv (snd p1) else (bv, snd p1) in
  let cv1 := if latest then
               if negb (d_delta d) then (if N.ltb cv iv then iv else cv)
               else (if fd then fst p2 else if fs then fst p1 else cv)
             else cv in
  ((fst p1, fst p2, cv1), snd p2).
Fixpoint spec_stats (fs fd latest : bool) (rows : list srow) (acc : N * N)
  : list (N * N * N) * (N * N) :=
  match rows with
  | [] => ([], acc)
  | row :: t =>
      let '(x, acc1) := row_step fs fd latest row acc in
      let '(xs, acc2) := spec_stats fs fd latest t acc1 in
      (x :: xs, acc2)
  end.

Fixpoint zip5 (d : list sdesc) (i a b c : list N) : list srow :=
  match d, i, a, b, c with
  | d0 :: d', i0 :: i', a0 :: a', b0 :: b', c0 :: c' => (d0, i0, a0, b0, c0) :: zip5 d' i' a' b' c'
  | _, _, _, _, _ => []
  end.

(* throughput lists: position i takes vals[i] when upd *)
Fixpoint spec_tp (upd : bool) (vals old : list N) {struct old} : list N :=
  match old with
  | [] => []
  | o :: old' => match vals with
                 | v :: vals' => (if upd then v else o) :: spec_tp upd vals' old'
                 | [] => old
                 end
  end.

Definition mem (n : string) (l : list string) : bool := existsb (String.eqb n) l.

(* ---------------------------------------------------------------- the three transitions *)
Definition set_end (a : node_acc) (e : N) : node_acc :=
  {| a_end := e; a_stat := a_stat a; a_tp := a_tp a |}.

(* aggregateRecords on an existing flow *)
Definition spec_agg (c : agg_config) (f : flow_abs) (fs fd : bool) (o : rec_obs) : flow_abs :=
  let e := o_end o in
  let latest := N.leb (f_end f) e in
  let fend := if latest then e else f_end f in
  let prev_of (a : node_acc) := if N.eqb (a_end a) 0 then o_start o else a_end a in
  let prev := if fd then prev_of (f_dst f) else if fs then prev_of (f_src f) else 0 in
  let src1 := if fs then set_end (f_src f) e else f_src f in
  let dst1 := if fd then set_end (f_dst f) e else f_dst f in
  if N.leb e prev then
    {| f_src := src1; f_dst := dst1; f_end := fend; f_stat := f_stat f; f_tp := f_tp f;
       f_reason := f_reason f; f_tcp := f_tcp f |}
  else
    let diff := e - prev in
    let rows := zip5 (map sdesc_of (stat_triples c)) (o_stat o)
                     (a_stat (f_src f)) (a_stat (f_dst f)) (f_stat f) in
    let '(res, (tcd, rtcd)) := spec_stats fs fd latest rows (0, 0) in
    let vals := [mul8 tcd / diff; mul8 rtcd / diff] in
    {| f_src := {| a_end := a_end src1; a_stat := map (fun x => fst (fst x)) res;
                   a_tp := spec_tp fs vals (a_tp (f_src f)) |};
       f_dst := {| a_end := a_end dst1; a_stat := map (fun x => snd (fst x)) res;
                   a_tp := spec_tp fd vals (a_tp (f_dst f)) |};
       f_end := fend; f_stat := map snd res; f_tp := spec_tp latest vals (f_tp f);
       f_reason := if mem "flowEndReason" (c_nonstats c) then
                     match f_reason f, o_reason o with
                     | Some (AU8 ev), Some (AU8 iv) =>
                         if N.eqb ev end_of_flow_reason then f_reason f else Some (AU8 iv)
                     | _, _ => f_reason f
                     end
                   else f_reason f;
       f_tcp := if mem "tcpState" (c_nonstats c) && latest then
                  match f_tcp f, o_tcp o with
                  | Some (AStr _), Some (AStr s) => Some (AStr s)
                  | _, _ => f_tcp f
                  end
                else f_tcp f |}.

(* the first record of a flow *)
Definition spec_create (c : agg_config) (fs fd : bool) (o : rec_obs) : flow_abs :=
  let dt := o_end o - o_start o in
  let tp := if N.ltb (o_start o) (o_end o) then mul8 (o_oct o) / dt else 0 in
  let rtp := if N.ltb (o_start o) (o_end o) then mul8 (o_roct o) / dt else 0 in
  let node (on : bool) := {| a_end := if on then o_end o else 0;
                             a_stat := map (fun v => if on then v else 0) (o_stat o);
                             a_tp := if on then [tp; rtp] else [0; 0] |} in
  {| f_src := node fs; f_dst := node fd; f_end := o_end o; f_stat := o_stat o; f_tp := [tp; rtp];
     f_reason := o_reason o; f_tcp := o_tcp o |}.

(* ResetStatAndThroughputElementsInRecord *)
Definition zero_deltas (c : agg_config) (l : list N) : list N :=
  map (fun sv => if contains "Delta" (fst sv) then 0 else snd sv) (combine (c_stats c) l).
Definition reset_node (c : agg_config) (a : node_acc) : node_acc :=
  {| a_end := a_end a; a_stat := zero_deltas c (a_stat a); a_tp := map (fun _ => 0) (a_tp a) |}.
Definition spec_reset (c : agg_config) (f : flow_abs) : flow_abs :=
  {| f_src := reset_node c (f_src f); f_dst := reset_node c (f_dst f);
     f_end := f_end f; f_stat := zero_deltas c (f_stat f); f_tp := map (fun _ => 0) (f_tp f);
     f_reason := f_reason f; f_tcp := f_tcp f |}.

Inductive fev := Rec (fs fd : bool) (o : rec_obs) | Reset.

Definition spec_step (c : agg_config) (st : option flow_abs) (e : fev) : option flow_abs :=
  match e, st with
  | Rec fs fd o, None => Some (spec_create c fs fd o)
  | Rec fs fd o, Some f => Some (spec_agg c f fs fd o)
  | Reset, None => None
  | Reset, Some f => Some (spec_reset c f)
  end.
Definition spec_flow (c : agg_config) (evs : list fev) : option flow_abs :=
  fold_left (spec_step c) evs None.

(* ---------------------------------------------------------------- events of a history *)
(* which node fields a record feeds: both for a flow that needs no correlation (one reporting
   stream), the source's for a source-node record, the destination's otherwise *)
Definition rec_flags (r : record) : bool * bool :=
  let ft := match get r "flowType" with Some (AU8 n) => n | _ => 0 end in
  match is_correlation_required ft r with
  | AOk true => match is_record_from_src r with AOk true => (true, false) | _ => (false, true) end
  | _ => (true, true)
  end.
Definition rec_key (r : record) : option key :=
  match flow_key_of r with AOk kv => Some (fst kv) | _ => None end.

Fixpoint events_of (c : agg_config) (h : list op) (k : key) : list fev :=
  match h with
  | [] => []
  | OpRec r :: t =>
      match rec_key r with
      | Some k' => if key_eqb k' k
                   then Rec (fst (rec_flags r)) (snd (rec_flags r)) (obs_of c r) :: events_of c t k
                   else events_of c t k
      | None => events_of c t k
      end
  | OpReset k' :: t => if key_eqb k' k then Reset :: events_of c t k else events_of c t k
  end.

(* ---------------------------------------------------------------- well-formed configurations *)
Fixpoint nodupb (l : list string) : bool :=
  match l with
  | [] => true
  | x :: t => negb (mem x t) && nodupb t
  end.

Fixpoint list_eqb (a b : list string) : bool :=
  match a, b with
  | [], [] => true
  | x :: a', y :: b' => String.eqb x y && list_eqb a' b'
  | _, _ => false
  end.

Definition added_names (c : agg_config) : list string :=
  c_src_stats c ++ c_dst_stats c ++ c_flow_end c ++ c_tp c ++ c_src_tp c ++ c_dst_tp c.
Definition fixed_names : list string :=
  ["flowEndSeconds"; "flowStartSeconds"; "flowEndReason"; "tcpState"].
Definition all_names (c : agg_config) : list string :=
  c_stats c ++ added_names c ++ fixed_names.

Definition octet_names_ok (e : string * string * string) : bool :=
  let '(s, a, b) := e in
  Bool.eqb (String.eqb s "octetTotalCount") (String.eqb a "octetTotalCountFromSourceNode") &&
  Bool.eqb (String.eqb s "octetTotalCount") (String.eqb b "octetTotalCountFromDestinationNode") &&
  Bool.eqb (String.eqb s "reverseOctetTotalCount") (String.eqb a "reverseOctetTotalCountFromSourceNode") &&
  Bool.eqb (String.eqb s "reverseOctetTotalCount") (String.eqb b "reverseOctetTotalCountFromDestinationNode").

Definition wf_config (c : agg_config) : bool :=
  negb (mem "sourcePodName" (added_names c)) && negb (mem "destinationPodName" (added_names c)) &&
  negb (c_nil c) &&
  Nat.eqb (List.length (c_stats c)) (List.length (c_src_stats c)) &&
  Nat.eqb (List.length (c_stats c)) (List.length (c_dst_stats c)) &&
  Nat.eqb (List.length (c_tp c)) 2 &&
  Nat.eqb (List.length (c_src_tp c)) 2 &&
  Nat.eqb (List.length (c_dst_tp c)) 2 &&
  list_eqb (c_flow_end c) [src_end_name; dst_end_name] &&
  nodupb (all_names c) && nodupb (c_nonstats c) &&
  forallb (fun f => negb (mem f (all_names c))) (c_correlate c) &&
  forallb (c_reg c) (added_names c) &&
  forallb octet_names_ok (stat_triples c) &&
  mem "octetTotalCount" (c_stats c) && mem "reverseOctetTotalCount" (c_stats c) &&
  negb (mem "httpVals" (c_nonstats c)).

(* ---------------------------------------------------------------- the configurations in use *)
Definition suffix_all (l : list string) (suf : string) : list string :=
  map (fun x => String.append x suf) l.
Definition correlate_std : list string :=
  ["sourcePodName"; "sourcePodNamespace"; "sourceNodeName"; "destinationPodName";
   "destinationPodNamespace"; "destinationNodeName"; "destinationClusterIPv4";
   "destinationClusterIPv6"; "destinationServicePort"; "ingressNetworkPolicyRuleAction";
   "egressNetworkPolicyRuleAction"; "ingressNetworkPolicyRulePriority"].
Definition mk_config (nonstats stats : list string) (reg : string -> bool) : agg_config :=
  {| c_nil := false; c_correlate := correlate_std; c_nonstats := nonstats; c_stats := stats;
     c_src_stats := suffix_all stats "FromSourceNode";
     c_dst_stats := suffix_all stats "FromDestinationNode";
     c_flow_end := [src_end_name; dst_end_name];
     c_tp := ["throughput"; "reverseThroughput"];
     c_src_tp := ["throughputFromSourceNode"; "reverseThroughputFromSourceNode"];
     c_dst_tp := ["throughputFromDestinationNode"; "reverseThroughputFromDestinationNode"];
     c_reg := reg |}.
(* pkg/intermediate/aggregate_test.go (without httpVals, whose JSON merge is not modelled) *)
Definition std_stats : list string :=
  ["packetTotalCount"; "packetDeltaCount"; "octetTotalCount";
   "reversePacketTotalCount"; "reversePacketDeltaCount"; "reverseOctetTotalCount"].
Definition std_config := mk_config ["flowEndSeconds"; "flowEndReason"; "tcpState"] std_stats.
Definition stdhttp_config :=
  mk_config ["flowEndSeconds"; "flowEndReason"; "tcpState"; "httpVals"] std_stats.
(* the Antrea flow aggregator: eight counters *)
Definition ant_config :=
  mk_config ["flowEndSeconds"; "flowEndReason"; "tcpState"]
    ["packetTotalCount"; "packetDeltaCount"; "octetTotalCount"; "octetDeltaCount";
     "reversePacketTotalCount"; "reversePacketDeltaCount"; "reverseOctetTotalCount";
     "reverseOctetDeltaCount"].

(* ---------------------------------------------------------------- well-typed records and histories *)
(* the template of a record: names and concrete kinds, in order *)
Definition shape (r : record) : list (string * kind) := map (fun f => (fst f, kind_of (snd f))) r.
Fixpoint kind_at (sh : list (string * kind)) (n : string) : option kind :=
  match sh with
  | [] => None
  | (m, k) :: t => if String.eqb m n then Some k else kind_at t n
  end.
Definition has_kind (sh : list (string * kind)) (n : string) (k : kind) : bool :=
  match kind_at sh n with Some k' => kind_eqb k' k | None => false end.
Definition opt_kind (sh : list (string * kind)) (n : string) (k : kind) : bool :=
  match kind_at sh n with Some k' => kind_eqb k' k | None => true end.
Definition absent (sh : list (string * kind)) (n : string) : bool :=
  match kind_at sh n with Some _ => false | None => true end.
Definition present (sh : list (string * kind)) (n : string) : bool := negb (absent sh n).

(* "the template the aggregation code assumes": the fields it reads exist with the concrete
   kinds it reads them as; the per-node fields it adds are not there yet *)
Definition typed_shape (c : agg_config) (sh : list (string * kind)) : bool :=
  has_kind sh "flowEndSeconds" KU32 && has_kind sh "flowStartSeconds" KU32 &&
  forallb (fun s => has_kind sh s KU64) (c_stats c) &&
  forallb (present sh) (c_nonstats c) &&
  (negb (mem "flowEndReason" (c_nonstats c)) || has_kind sh "flowEndReason" KU8) &&
  (negb (mem "tcpState" (c_nonstats c)) || has_kind sh "tcpState" KStr) &&
  forallb (absent sh) (added_names c) &&
  opt_kind sh "sourcePodName" KStr && opt_kind sh "destinationPodName" KStr &&
  opt_kind sh "flowType" KU8 && opt_kind sh "egressNetworkPolicyRuleAction" KU8 &&
  opt_kind sh "ingressNetworkPolicyRuleAction" KU8.

Fixpoint shape_eqb (a b : list (string * kind)) : bool :=
  match a, b with
  | [], [] => true
  | (n, k) :: a', (m, j) :: b' => String.eqb n m && kind_eqb k j && shape_eqb a' b'
  | _, _ => false
  end.
Fixpoint lookup_shape (seen : list (key * list (string * kind))) (k : key) :=
  match seen with
  | [] => None
  | (k', sh) :: t => if key_eqb k' k then Some sh else lookup_shape t k
  end.

(* Two templates are EQUIVALENT when every lookup by name gives the same answer in both: each
   field of either template is found under its name, with the same concrete kind, in the other.
   The ORDER of the fields is irrelevant (the aggregation code finds every field through
   GetInfoElementWithValue(name)).  For templates without duplicated names this says exactly:
   the same SET of (name, kind) fields - any permutation of one another
   (Agg_lemmas.shape_equiv_nodup_iff, shape_equiv_perm); identical templates are equivalent
   whatever they contain (shape_eqb_equiv). *)
Definition okind_eqb (a b : option kind) : bool :=
  match a, b with
  | Some x, Some y => kind_eqb x y
  | None, None => true
  | _, _ => false
  end.
Definition shape_equiv (a b : list (string * kind)) : bool :=
  forallb (fun f => okind_eqb (kind_at a (fst f)) (kind_at b (fst f))) (a ++ b).

(* every record has a well-typed template and a flow key, and all records of one flow use
   equivalent templates ("both nodes export the same fields", in any order) *)
Fixpoint typed_from (c : agg_config) (seen : list (key * list (string * kind))) (h : list op) : bool :=
  match h with
  | [] => true
  | OpReset _ :: t => typed_from c seen t
  | OpRec r :: t =>
      typed_shape c (shape r) &&
      match rec_key r with
      | None => false
      | Some k => match lookup_shape seen k with
                  | Some sh => shape_equiv sh (shape r) && typed_from c seen t
                  | None => typed_from c ((k, shape r) :: seen) t
                  end
      end
  end.
Definition typed_history (c : agg_config) (h : list op) : bool := typed_from c [] h.

(* the stronger requirement used before: all records of one flow use the same template, field
   for field IN THE SAME ORDER.  Kept only to state that typed_history is weaker
   (Agg_lemmas.typed_history_ordered_incl). *)
Fixpoint typed_from_ordered (c : agg_config) (seen : list (key * list (string * kind))) (h : list op) : bool :=
  match h with
  | [] => true
  | OpReset _ :: t => typed_from_ordered c seen t
  | OpRec r :: t =>
      typed_shape c (shape r) &&
      match rec_key r with
      | None => false
      | Some k => match lookup_shape seen k with
                  | Some sh => shape_eqb sh (shape r) && typed_from_ordered c seen t
                  | None => typed_from_ordered c ((k, shape r) :: seen) t
                  end
      end
  end.
Definition typed_history_ordered (c : agg_config) (h : list op) : bool := typed_from_ordered c [] h.
