(* Lemmas on N-keyed association lists (Model/KMap.v). *)
From Coq Require Import List Bool NArith Lia.
From Verif.Model Require Import KMap.
Import ListNotations.

Lemma n_mem_In k l : n_mem k l = true <-> In k l.
Proof.
  induction l as [|x l IH]; cbn; [split; [discriminate|tauto]|].
  rewrite orb_true_iff, IH, N.eqb_eq. tauto.
Qed.
Lemma n_mem_false k l : n_mem k l = false <-> ~ In k l.
Proof. rewrite <- n_mem_In. destruct (n_mem k l); split; congruence. Qed.
Lemma n_nodup_NoDup l : n_nodup l = true <-> NoDup l.
Proof.
  induction l as [|x l IH]; cbn; [split; [constructor|reflexivity]|].
  rewrite andb_true_iff, negb_true_iff, n_mem_false, IH.
  split; [intros [? ?]; constructor; assumption | intros H; inversion H; tauto].
Qed.

Section KMapLemmas.
  Context {V : Type}.
  Implicit Types (m : kmap V) (k : N) (v : V).

  Lemma km_find_In_keys k m : km_find k m <> None <-> In k (km_keys m).
  Proof.
    induction m as [|[k' v'] m IH]; cbn; [tauto|].
    destruct (N.eqb_spec k' k); [subst; split; [auto|intros _; discriminate]|].
    rewrite IH. split; [tauto|intros [?|?]; [congruence|assumption]].
  Qed.
  Lemma km_find_None_keys k m : km_find k m = None <-> ~ In k (km_keys m).
  Proof.
    rewrite <- km_find_In_keys. destruct (km_find k m); split; intros H; try congruence.
    exfalso. apply H. discriminate.
  Qed.
  Lemma km_mem_In k m : km_mem k m = true <-> In k (km_keys m).
  Proof. rewrite <- km_find_In_keys. unfold km_mem. destruct (km_find k m); split; intros H; congruence. Qed.
  Lemma km_find_In k v m : km_find k m = Some v -> In (k, v) m.
  Proof.
    induction m as [|[k' v'] m IH]; cbn; [discriminate|].
    destruct (N.eqb_spec k' k); [intros [= ->]; subst; auto | auto].
  Qed.
  Lemma km_In_find k v m : NoDup (km_keys m) -> In (k, v) m -> km_find k m = Some v.
  Proof.
    induction m as [|[k' v'] m IH]; cbn; [tauto|]. intros ND [E|I].
    - inversion E; subst. rewrite N.eqb_refl. reflexivity.
    - inversion ND; subst. destruct (N.eqb_spec k' k); [subst|auto].
      exfalso. apply H1. change k with (fst (k, v)). apply in_map. assumption.
  Qed.

  Lemma km_find_remove_other k k' m : k' <> k -> km_find k' (km_remove k m) = km_find k' m.
  Proof.
    intros NE. induction m as [|[k0 v0] m IH]; cbn; [reflexivity|].
    destruct (N.eqb_spec k0 k).
    - subst. destruct (N.eqb_spec k k'); [congruence|reflexivity].
    - cbn. rewrite IH. reflexivity.
  Qed.
  Lemma km_keys_remove_incl k m x : In x (km_keys (km_remove k m)) -> In x (km_keys m).
  Proof.
    induction m as [|[k0 v0] m IH]; cbn; [tauto|].
    destruct (N.eqb_spec k0 k); cbn; tauto.
  Qed.
  Lemma km_remove_NoDup k m : NoDup (km_keys m) -> NoDup (km_keys (km_remove k m)).
  Proof.
    induction m as [|[k0 v0] m IH]; cbn; [auto|]. intros ND. inversion ND; subst.
    destruct (N.eqb_spec k0 k); [assumption|]. cbn. constructor; [|auto].
    intros I. apply H1. eapply km_keys_remove_incl. eassumption.
  Qed.
  Lemma km_find_remove_same k m : NoDup (km_keys m) -> km_find k (km_remove k m) = None.
  Proof.
    induction m as [|[k0 v0] m IH]; cbn; [reflexivity|]. intros ND. inversion ND; subst.
    destruct (N.eqb_spec k0 k).
    - subst. apply km_find_None_keys. assumption.
    - cbn. destruct (N.eqb_spec k0 k); [congruence|auto].
  Qed.
  Lemma km_In_remove k m e : In e (km_remove k m) -> In e m.
  Proof.
    induction m as [|[k0 v0] m IH]; cbn; [tauto|].
    destruct (N.eqb_spec k0 k); cbn; tauto.
  Qed.
  Lemma km_In_remove_other k m e : fst e <> k -> In e m -> In e (km_remove k m).
  Proof.
    intros NE. induction m as [|[k0 v0] m IH]; cbn; [tauto|].
    destruct (N.eqb_spec k0 k); cbn.
    - intros [E|I]; [subst; cbn in NE; congruence|assumption].
    - tauto.
  Qed.

  Lemma km_find_push k' k v m :
    km_find k' (km_push k v m) =
    match km_find k' m with Some x => Some x | None => if N.eqb k k' then Some v else None end.
  Proof.
    unfold km_push. induction m as [|[k0 v0] m IH]; cbn; [reflexivity|].
    destruct (N.eqb k0 k'); [reflexivity|apply IH].
  Qed.
  Lemma km_keys_push k v m : km_keys (km_push k v m) = km_keys m ++ [k].
  Proof. unfold km_push, km_keys. rewrite map_app. reflexivity. Qed.
  Lemma km_push_NoDup k v m : NoDup (km_keys m) -> km_find k m = None -> NoDup (km_keys (km_push k v m)).
  Proof.
    intros ND F. rewrite km_keys_push. apply km_find_None_keys in F.
    induction (km_keys m) as [|x l IH]; cbn; [constructor; [intros []|constructor]|].
    inversion ND; subst. constructor.
    - rewrite in_app_iff. cbn. cbn in F. intros [?|[?|[]]]; [tauto|subst; tauto].
    - apply IH; [assumption|]. cbn in F. tauto.
  Qed.

  Lemma km_keys_set k v m : km_keys (km_set k v m) = km_keys m.
  Proof.
    unfold km_keys. induction m as [|[k0 v0] m IH]; cbn; [reflexivity|].
    destruct (N.eqb k0 k); cbn; [reflexivity|f_equal; exact IH].
  Qed.
  Lemma km_find_set k' k v m :
    km_find k' (km_set k v m) =
    if N.eqb k k' then match km_find k m with Some _ => Some v | None => None end else km_find k' m.
  Proof.
    induction m as [|[k0 v0] m IH]; cbn; [destruct (N.eqb k k'); reflexivity|].
    destruct (N.eqb_spec k0 k); cbn.
    - subst. destruct (N.eqb_spec k k'); reflexivity.
    - rewrite IH. destruct (N.eqb_spec k k'); [subst|reflexivity].
      destruct (N.eqb_spec k0 k'); [congruence|reflexivity].
  Qed.

  Lemma km_find_put k' k v m :
    km_find k' (km_put k v m) = if N.eqb k k' then Some v else km_find k' m.
  Proof.
    unfold km_put. destruct (km_find k m) eqn:F.
    - rewrite km_find_set, F. reflexivity.
    - rewrite km_find_push. destruct (N.eqb_spec k k'); [subst; rewrite F; reflexivity|].
      destruct (km_find k' m); reflexivity.
  Qed.
  Lemma km_put_NoDup k v m : NoDup (km_keys m) -> NoDup (km_keys (km_put k v m)).
  Proof.
    intros ND. unfold km_put. destruct (km_find k m) eqn:F.
    - rewrite km_keys_set. assumption.
    - apply km_push_NoDup; assumption.
  Qed.
  Lemma km_keys_put_In k v m x : In x (km_keys (km_put k v m)) <-> x = k \/ In x (km_keys m).
  Proof.
    rewrite <- !km_find_In_keys, km_find_put.
    destruct (N.eqb_spec k x); [subst; split; [auto|intros _; discriminate]|].
    split; [tauto|intros [?|?]; [congruence|assumption]].
  Qed.
End KMapLemmas.
