(* Proofs about the exact array heap (Model/Heap.v): heap order and index fields are invariants
   of Push / Pop / Fix / Update / Remove / Init, the multiset of items is preserved, Pop returns a
   minimal item, up/down terminate within the fuel given. *)
From Coq Require Import List Bool Arith NArith ZArith Lia Permutation.
From Coq Require Import ZifyNat ZifyBool.
From Verif.Base Require Import Outcome.
From Verif.Model Require Import KMap Pq Heap.
Import ListNotations.
Local Open Scope Z_scope.

Ltac Zify.zify_post_hook ::= Z.div_mod_to_equations.

(* ---- set_nth ---- *)
Lemma set_nth_length {A} n (x : A) l : List.length (set_nth n x l) = List.length l.
Proof. revert n. induction l as [|y l IH]; intros [|n]; cbn; auto. Qed.

Lemma nth_error_set_nth {A} (l : list A) i x k : (i < List.length l)%nat ->
  nth_error (set_nth i x l) k = if Nat.eqb k i then Some x else nth_error l k.
Proof.
  revert i k. induction l as [|y l IH]; intros i k L; cbn in L; [lia|].
  destruct i as [|i], k as [|k]; cbn; try reflexivity. apply IH. lia.
Qed.

Lemma map_set_nth {A B} (f : A -> B) n x l : map f (set_nth n x l) = set_nth n (f x) (map f l).
Proof. revert n. induction l as [|y l IH]; intros [|n]; cbn; try reflexivity. rewrite IH. reflexivity. Qed.

Lemma set_nth_same {A} (l : list A) i x : nth_error l i = Some x -> set_nth i x l = l.
Proof.
  revert i. induction l as [|y l IH]; intros [|i]; cbn; try discriminate.
  - intros [= ->]. reflexivity.
  - intros H. rewrite IH by assumption. reflexivity.
Qed.

Lemma perm_set_nth_cons {A} (r : list A) j w y : nth_error r j = Some w ->
  Permutation (w :: set_nth j y r) (y :: r).
Proof.
  revert j. induction r as [|z r IH]; intros [|j]; cbn; try discriminate.
  - intros [= ->]. apply perm_swap.
  - intros H. eapply perm_trans; [apply perm_swap|]. eapply perm_trans; [|apply perm_swap].
    apply perm_skip. apply IH. assumption.
Qed.

(* exchanging two positions is a permutation *)
Lemma perm_swap_nth {A} (m : list A) i j u w : nth_error m i = Some u -> nth_error m j = Some w ->
  Permutation (set_nth j u (set_nth i w m)) m.
Proof.
  revert i j. induction m as [|y r IH]; intros [|i] [|j]; cbn; try discriminate.
  - intros [= ->] [= ->]. reflexivity.
  - intros [= ->] H. apply perm_set_nth_cons. assumption.
  - intros H [= ->]. apply perm_set_nth_cons. assumption.
  - intros H1 H2. apply perm_skip. apply IH; assumption.
Qed.

Lemma firstn_set_nth_ge {A} (l : list A) n i x : (n <= i)%nat -> firstn n (set_nth i x l) = firstn n l.
Proof.
  revert n i. induction l as [|y l IH]; intros [|n] [|i] L; cbn; try reflexivity; try lia.
  rewrite IH by lia. reflexivity.
Qed.

Lemma nth_error_firstn {A} (l : list A) n k : (k < n)%nat -> nth_error (firstn n l) k = nth_error l k.
Proof.
  revert n k. induction l as [|y l IH]; intros [|n] [|k] L; cbn; try reflexivity; try lia.
  apply IH. lia.
Qed.

Lemma firstn_snoc {A} (l : list A) m x : List.length l = S m -> nth_error l m = Some x ->
  l = firstn m l ++ [x].
Proof.
  revert m. induction l as [|y l IH]; intros m L H; cbn in L; [lia|].
  destruct m as [|m]; cbn in *.
  - destruct l; [|cbn in L; lia]. congruence.
  - f_equal. apply IH; [lia|assumption].
Qed.

(* ---- values and the order ---- *)
Definition dummy : hitem := mkH 0%N 0 0 0.
Definition hv (h : heap) (i : nat) : Z := h_min (nth i h dummy).

Lemma nth_of_nth_error (h : heap) i x : nth_error h i = Some x -> nth i h dummy = x.
Proof. intros H. apply nth_error_nth. assumption. Qed.

Lemma nth_error_some (h : heap) i : (i < List.length h)%nat -> nth_error h i = Some (nth i h dummy).
Proof. intros L. apply List.nth_error_nth'. assumption. Qed.

Lemma minExpire_ok h i : (i < List.length h)%nat -> pq_minExpireTime h i = Ok (hv h i).
Proof. intros L. unfold pq_minExpireTime, hv. rewrite (nth_error_some h i L). reflexivity. Qed.

Lemma Less_ok h i j : (i < List.length h)%nat -> (j < List.length h)%nat ->
  pq_Less h i j = Ok (hv h i <? hv h j).
Proof. intros A B. unfold pq_Less. rewrite !minExpire_ok by assumption. reflexivity. Qed.

(* c is a child of p in the implicit binary tree *)
Definition child (p c : nat) : Prop := (c = 2 * p + 1 \/ c = 2 * p + 2)%nat.

Lemma child_parent c : (0 < c)%nat -> child ((c - 1) / 2) c.
Proof. intros L. unfold child. lia. Qed.
Lemma parent_of_child p c : child p c -> ((c - 1) / 2)%nat = p.
Proof. unfold child. lia. Qed.

(* the first n slots are heap-ordered: no child sorts before its parent *)
Definition ordered (h : heap) (n : nat) : Prop :=
  forall p c, (c < n)%nat -> child p c -> hv h p <= hv h c.

(* every slot's index field is its position *)
Definition idx_ok (h : heap) : Prop :=
  forall i x, nth_error h i = Some x -> h_idx x = Z.of_nat i.

Definition heap_inv (h : heap) : Prop := ordered h (List.length h) /\ idx_ok h.

(* the invariant in the words of container/heap: !h.Less(j, parent(j)) for every j > 0 *)
Lemma ordered_Less h : ordered h (List.length h) <->
  forall j, (0 < j < List.length h)%nat -> pq_Less h j ((j - 1) / 2) = Ok false.
Proof.
  split.
  - intros O j L. rewrite Less_ok by lia. f_equal. apply Z.ltb_ge. apply O; [lia|apply child_parent; lia].
  - intros H p c L C. specialize (H c). rewrite (parent_of_child _ _ C) in H.
    rewrite Less_ok in H by (unfold child in C; lia).
    assert (E : (hv h c <? hv h p) = false) by (assert (0 < c)%nat by (unfold child in C; lia); specialize (H ltac:(lia)); congruence).
    apply Z.ltb_ge in E. assumption.
Qed.

(* the root is a minimum *)
Lemma ordered_root_min h n : ordered h n -> forall c, (c < n)%nat -> hv h 0 <= hv h c.
Proof.
  intros O c. induction c as [c IH] using lt_wf_ind. intros L.
  destruct c as [|c]; [lia|].
  pose proof (child_parent (S c) ltac:(lia)) as C.
  specialize (O _ _ L C). specialize (IH ((S c - 1) / 2)%nat ltac:(lia) ltac:(lia)). lia.
Qed.

(* ---- Swap ---- *)
Definition swapped (h : heap) (i j : nat) : heap :=
  set_nth j (h_set_idx (nth i h dummy) (Z.of_nat j)) (set_nth i (h_set_idx (nth j h dummy) (Z.of_nat i)) h).

Lemma Swap_ok h i j : (i < List.length h)%nat -> (j < List.length h)%nat ->
  pq_Swap h i j = Ok (swapped h i j).
Proof.
  intros A B. unfold pq_Swap, swapped. rewrite (nth_error_some h i A), (nth_error_some h j B). reflexivity.
Qed.

Lemma swapped_length h i j : List.length (swapped h i j) = List.length h.
Proof. unfold swapped. rewrite !set_nth_length. reflexivity. Qed.

Lemma swapped_nth_error h i j k : (i < List.length h)%nat -> (j < List.length h)%nat ->
  nth_error (swapped h i j) k =
  if Nat.eqb k j then Some (h_set_idx (nth i h dummy) (Z.of_nat j))
  else if Nat.eqb k i then Some (h_set_idx (nth j h dummy) (Z.of_nat i))
  else nth_error h k.
Proof.
  intros A B. unfold swapped. rewrite nth_error_set_nth by (rewrite set_nth_length; assumption).
  destruct (Nat.eqb k j); [reflexivity|]. rewrite nth_error_set_nth by assumption. reflexivity.
Qed.

Lemma hv_swapped h i j k : (i < List.length h)%nat -> (j < List.length h)%nat ->
  hv (swapped h i j) k = if Nat.eqb k j then hv h i else if Nat.eqb k i then hv h j else hv h k.
Proof.
  intros A B. unfold hv at 1.
  destruct (Nat.ltb_spec k (List.length h)) as [L|L].
  - pose proof (swapped_nth_error h i j k A B) as E.
    destruct (Nat.eqb k j); [|destruct (Nat.eqb k i)].
    + rewrite (nth_of_nth_error _ _ _ E). reflexivity.
    + rewrite (nth_of_nth_error _ _ _ E). reflexivity.
    + rewrite (nth_error_some h k L) in E. rewrite (nth_of_nth_error _ _ _ E). reflexivity.
  - destruct (Nat.eqb_spec k j); [lia|]. destruct (Nat.eqb_spec k i); [lia|].
    unfold hv. rewrite !nth_overflow by (rewrite ?swapped_length; lia). reflexivity.
Qed.

Lemma swapped_idx_ok h i j : (i < List.length h)%nat -> (j < List.length h)%nat ->
  idx_ok h -> idx_ok (swapped h i j).
Proof.
  intros A B I k x. rewrite swapped_nth_error by assumption.
  destruct (Nat.eqb_spec k j) as [->|]; [intros [= <-]; reflexivity|].
  destruct (Nat.eqb_spec k i) as [->|]; [intros [= <-]; reflexivity|]. apply I.
Qed.

Lemma h_data_set_idx x i : h_data (h_set_idx x i) = h_data x.
Proof. reflexivity. Qed.

Lemma swapped_perm h i j : (i < List.length h)%nat -> (j < List.length h)%nat ->
  Permutation (map h_data (swapped h i j)) (map h_data h).
Proof.
  intros A B. unfold swapped. rewrite !map_set_nth, !h_data_set_idx.
  apply perm_swap_nth; rewrite nth_error_map; [rewrite (nth_error_some h i A)|rewrite (nth_error_some h j B)]; reflexivity.
Qed.

(* slots at or beyond n are not touched when i, j < n *)
Lemma swapped_firstn_skip h i j n k : (i < n)%nat -> (j < n)%nat -> (n <= k)%nat ->
  (n <= List.length h)%nat -> nth_error (swapped h i j) k = nth_error h k.
Proof.
  intros A B C D. rewrite swapped_nth_error by lia.
  destruct (Nat.eqb_spec k j); [lia|]. destruct (Nat.eqb_spec k i); [lia|]. reflexivity.
Qed.

(* ---- what a run of swaps below n preserves ---- *)
Definition sw (n : nat) (h h' : heap) : Prop :=
  List.length h' = List.length h /\
  Permutation (map h_data h') (map h_data h) /\
  (idx_ok h -> idx_ok h') /\
  (forall k, (n <= k)%nat -> nth_error h' k = nth_error h k).

Lemma sw_refl n h : sw n h h.
Proof. repeat split; auto. Qed.

Lemma sw_trans n h1 h2 h3 : sw n h1 h2 -> sw n h2 h3 -> sw n h1 h3.
Proof.
  intros (L1 & P1 & I1 & K1) (L2 & P2 & I2 & K2). repeat split.
  - congruence.
  - eapply perm_trans; eassumption.
  - auto.
  - intros k L. rewrite K2, K1 by assumption. reflexivity.
Qed.

Lemma sw_swapped n h i j : (i < n)%nat -> (j < n)%nat -> (n <= List.length h)%nat -> sw n h (swapped h i j).
Proof.
  intros A B C. repeat split.
  - apply swapped_length.
  - apply swapped_perm; lia.
  - apply swapped_idx_ok; lia.
  - intros k L. apply (swapped_firstn_skip h i j n k); assumption.
Qed.

Lemma sw_mono n m h h' : (n <= m)%nat -> sw n h h' -> sw m h h'.
Proof. intros L (A & B & C & D). repeat split; auto. intros k K. apply D. lia. Qed.

(* ---- down ---- *)
(* [lo]: only pairs whose parent is at or after lo are considered (heap.Init works bottom-up;
   everywhere else lo = 0) *)
Lemma down_loop_spec : forall fuel h i n lo,
  (n <= List.length h)%nat -> (n - i < fuel)%nat -> (lo <= i)%nat ->
  (forall p c, (c < n)%nat -> child p c -> (lo <= p)%nat -> c <> i -> p <> i -> hv h p <= hv h c) ->
  (forall g c, (lo <= g)%nat -> child g i -> child i c -> (c < n)%nat -> hv h g <= hv h c) ->
  exists h' i', hp_down_loop fuel h i n = Ok (h', i') /\ sw n h h' /\ (i <= i')%nat /\
    (i' = i -> h' = h) /\
    (forall p c, (c < n)%nat -> child p c -> (lo <= p)%nat -> (c <> i \/ (i < i')%nat) -> hv h' p <= hv h' c).
Proof.
  induction fuel as [|fuel IH]; intros h i n lo Ln Lf Llo A B; [lia|].
  cbn [hp_down_loop].
  destruct (Nat.leb_spec n (2 * i + 1)) as [Lj|Lj].
  { exists h, i. split; [reflexivity|]. split; [apply sw_refl|]. split; [lia|]. split; [reflexivity|].
    intros p c Lc C Lp [NE|]; [|lia]. apply A; auto. intros ->. unfold child in C. lia. }
  (* the smaller child j *)
  set (j1 := (2 * i + 1)%nat) in *.
  assert (E21 : (if (j1 + 1 <? n)%nat then pq_Less h (j1 + 1) j1 else Ok false) =
                Ok (if (j1 + 1 <? n)%nat then hv h (j1 + 1) <? hv h j1 else false)).
  { destruct (Nat.ltb_spec (j1 + 1) n); [apply Less_ok; lia|reflexivity]. }
  rewrite E21. cbn [obind].
  set (j := if (if (j1 + 1 <? n)%nat then hv h (j1 + 1) <? hv h j1 else false) then (j1 + 1)%nat else j1).
  assert (Cj : child i j /\ (j < n)%nat /\ forall c, child i c -> (c < n)%nat -> hv h j <= hv h c).
  { unfold j. destruct (Nat.ltb_spec (j1 + 1) n) as [L2|L2].
    - destruct (Z.ltb_spec (hv h (j1 + 1)) (hv h j1)) as [Lt|Ge].
      + split; [unfold child; lia|]. split; [lia|]. intros c [->| ->] _; fold j1; [lia|].
        replace (2 * i + 2)%nat with (j1 + 1)%nat by lia. lia.
      + split; [unfold child; lia|]. split; [lia|]. intros c [->| ->] _; fold j1; [lia|].
        replace (2 * i + 2)%nat with (j1 + 1)%nat by lia. lia.
    - split; [unfold child; lia|]. split; [lia|]. intros c [->| ->] Lc; fold j1; lia. }
  destruct Cj as (Cj & Ljn & Jmin). clearbody j.
  assert (Lij : (i < j)%nat) by (unfold child in Cj; lia).
  rewrite Less_ok by lia. cbn [obind].
  destruct (Z.ltb_spec (hv h j) (hv h i)) as [Lt|Ge]; cbn [negb].
  2:{ exists h, i. split; [reflexivity|]. split; [apply sw_refl|]. split; [lia|]. split; [reflexivity|].
      intros p c Lc C Lp [NE|]; [|lia]. destruct (Nat.eq_dec p i) as [->|NEp]; [|apply A; auto].
      specialize (Jmin c C Lc). lia. }
  rewrite Swap_ok by lia. cbn [obind].
  assert (V : forall k, hv (swapped h i j) k = if Nat.eqb k j then hv h i else if Nat.eqb k i then hv h j else hv h k)
    by (intros k; apply hv_swapped; lia).
  destruct (IH (swapped h i j) j n lo) as (h' & i' & E & S & Li & Same & O).
  - rewrite swapped_length. assumption.
  - lia.
  - lia.
  - intros p c Lc C Lp NEc NEp. rewrite !V.
    destruct (Nat.eqb_spec c j); [congruence|]. destruct (Nat.eqb_spec p j); [congruence|].
    destruct (Nat.eqb_spec c i) as [->|NEci].
    + (* (parent i, i): by (B) *)
      destruct (Nat.eqb_spec p i); [unfold child in C; lia|]. apply (B p j Lp C Cj Ljn).
    + destruct (Nat.eqb_spec p i) as [->|NEpi]; [apply Jmin; assumption|]. apply A; assumption.
  - intros g c Lg Cg Cc Lc. rewrite !V.
    assert (g = i) as -> by (unfold child in *; lia).
    destruct (Nat.eqb_spec i j); [lia|]. rewrite Nat.eqb_refl.
    destruct (Nat.eqb_spec c j); [unfold child in Cc; lia|]. destruct (Nat.eqb_spec c i); [unfold child in Cc; lia|].
    apply A; [assumption|assumption|lia|unfold child in Cc; lia|lia].
  - exists h', i'. split; [assumption|]. split; [eapply sw_trans; [|eassumption]; apply sw_swapped; lia|].
    split; [lia|]. split; [lia|].
    intros p c Lc C Lp _. destruct (Nat.eq_dec c j) as [->|NEc]; [|apply O; auto].
    destruct (Nat.eq_dec i' j) as [->|NEi]; [|apply O; auto; right; lia].
    rewrite (Same eq_refl), !V.
    assert (p = i) as -> by (unfold child in *; lia).
    rewrite Nat.eqb_refl. destruct (Nat.eqb_spec i j); [lia|]. rewrite Nat.eqb_refl. lia.
Qed.

Lemma down_spec_lo h i n lo :
  (n <= List.length h)%nat -> (lo <= i)%nat ->
  (forall p c, (c < n)%nat -> child p c -> (lo <= p)%nat -> c <> i -> p <> i -> hv h p <= hv h c) ->
  (forall g c, (lo <= g)%nat -> child g i -> child i c -> (c < n)%nat -> hv h g <= hv h c) ->
  exists h' moved, hp_down h i n = Ok (h', moved) /\ sw n h h' /\ (moved = false -> h' = h) /\
    (forall p c, (c < n)%nat -> child p c -> (lo <= p)%nat -> (c <> i \/ moved = true) -> hv h' p <= hv h' c).
Proof.
  intros Ln Llo A B. destruct (down_loop_spec (S n) h i n lo Ln ltac:(lia) Llo A B) as (h' & i' & E & S & Li & Same & O).
  exists h', (i <? i')%nat. unfold hp_down. rewrite E. cbn. split; [reflexivity|]. split; [assumption|]. split.
  - intros F. apply Nat.ltb_ge in F. apply Same. lia.
  - intros p c Lc C Lp [NE|M]; apply O; auto. right. apply Nat.ltb_lt. assumption.
Qed.

Lemma down_spec h i n :
  (n <= List.length h)%nat ->
  (forall p c, (c < n)%nat -> child p c -> c <> i -> p <> i -> hv h p <= hv h c) ->
  (forall g c, child g i -> child i c -> (c < n)%nat -> hv h g <= hv h c) ->
  exists h' moved, hp_down h i n = Ok (h', moved) /\ sw n h h' /\ (moved = false -> h' = h) /\
    (forall p c, (c < n)%nat -> child p c -> (c <> i \/ moved = true) -> hv h' p <= hv h' c).
Proof.
  intros Ln A B.
  destruct (down_spec_lo h i n 0 Ln ltac:(lia)) as (h' & moved & E & S & Same & O).
  - intros p c Lc C _. apply A; assumption.
  - intros g c _. apply B.
  - exists h', moved. split; [assumption|]. split; [assumption|]. split; [assumption|].
    intros p c Lc C D. apply O; auto. lia.
Qed.

(* ---- up ---- *)
Lemma up_spec : forall fuel h j n,
  (n <= List.length h)%nat -> (j < n)%nat -> (j < fuel)%nat ->
  (forall p c, (c < n)%nat -> child p c -> c <> j -> hv h p <= hv h c) ->
  (forall g c, child g j -> child j c -> (c < n)%nat -> hv h g <= hv h c) ->
  exists h', hp_up fuel h j = Ok h' /\ sw n h h' /\ ordered h' n.
Proof.
  induction fuel as [|fuel IH]; intros h j n Ln Lj Lf A B; [lia|].
  cbn [hp_up]. destruct (Nat.eqb_spec ((j - 1) / 2) j) as [E0|NE0].
  { exists h. split; [reflexivity|]. split; [apply sw_refl|]. intros p c Lc C. apply A; auto.
    unfold child in C. lia. }
  assert (J0 : (0 < j)%nat) by lia.
  set (i := ((j - 1) / 2)%nat) in *.
  assert (Ci : child i j) by (apply child_parent; assumption).
  assert (Lij : (i < j)%nat) by (unfold child in Ci; lia).
  rewrite Less_ok by lia. cbn [obind].
  destruct (Z.ltb_spec (hv h j) (hv h i)) as [Lt|Ge]; cbn [negb].
  2:{ exists h. split; [reflexivity|]. split; [apply sw_refl|]. intros p c Lc C.
      destruct (Nat.eq_dec c j) as [->|NE]; [|apply A; auto].
      assert (p = i) as -> by (unfold child in *; lia). assumption. }
  rewrite Swap_ok by lia. cbn [obind].
  assert (V : forall k, hv (swapped h i j) k = if Nat.eqb k j then hv h i else if Nat.eqb k i then hv h j else hv h k)
    by (intros k; apply hv_swapped; lia).
  destruct (IH (swapped h i j) i n) as (h' & E & S & O).
  - rewrite swapped_length. assumption.
  - lia.
  - lia.
  - intros p c Lc C NEc. rewrite !V.
    destruct (Nat.eqb_spec c i); [congruence|].
    destruct (Nat.eqb_spec c j) as [->|NEcj].
    + assert (p = i) as -> by (unfold child in *; lia).
      destruct (Nat.eqb_spec i j); [lia|]. rewrite Nat.eqb_refl. lia.
    + destruct (Nat.eqb_spec p j) as [->|NEpj].
      * (* a child of j: it was below the old parent value by (B) *)
        apply (B i c Ci C Lc).
      * destruct (Nat.eqb_spec p i) as [->|NEpi]; [|apply A; assumption].
        (* the sibling of j *)
        specialize (A i c Lc C NEcj). lia.
  - intros g c Cg Cc Lc. rewrite !V.
    destruct (Nat.eqb_spec g j); [unfold child in *; lia|]. destruct (Nat.eqb_spec g i); [unfold child in *; lia|].
    assert (Gi : hv h g <= hv h i) by (apply A; [lia|assumption|lia]).
    destruct (Nat.eqb_spec c j) as [->|NEcj]; [assumption|].
    destruct (Nat.eqb_spec c i); [unfold child in Cc; lia|].
    specialize (A i c Lc Cc NEcj). lia.
  - exists h'. split; [assumption|]. split; [|assumption].
    eapply sw_trans; [|eassumption]. apply sw_swapped; lia.
Qed.

(* ---- small facts ---- *)
Lemma hv_app h l k : (k < List.length h)%nat -> hv (h ++ l) k = hv h k.
Proof. intros L. unfold hv. rewrite app_nth1 by assumption. reflexivity. Qed.

Lemma hv_firstn h n k : (k < n)%nat -> (n <= List.length h)%nat -> hv (firstn n h) k = hv h k.
Proof.
  intros L Ln. unfold hv. f_equal. apply nth_of_nth_error. rewrite nth_error_firstn by assumption.
  apply nth_error_some. lia.
Qed.

Lemma In_hv h y : In y h -> exists c, (c < List.length h)%nat /\ hv h c = h_min y.
Proof.
  intros I. destruct (In_nth_error _ _ I) as (c & E). exists c. split.
  - apply nth_error_Some. congruence.
  - unfold hv. rewrite (nth_of_nth_error _ _ _ E). reflexivity.
Qed.

(* all pairs are ordered except those that involve slot i; the neighbours of i are ordered
   across it (as they are when only the value at i has changed) *)
Definition ord_except (h : heap) (n i : nat) : Prop :=
  (forall p c, (c < n)%nat -> child p c -> c <> i -> p <> i -> hv h p <= hv h c) /\
  (forall g c, child g i -> child i c -> (c < n)%nat -> hv h g <= hv h c).

(* ---- heap.Push ---- *)
Lemma heap_Push_spec h x : heap_inv h ->
  exists h', heap_Push h x = Ok h' /\ heap_inv h' /\
    Permutation (map h_data h') (h_data x :: map h_data h) /\
    List.length h' = S (List.length h).
Proof.
  intros [O I]. unfold heap_Push, pq_Len.
  set (n := List.length h).
  set (h0 := pq_Push h x).
  assert (L0 : List.length h0 = S n) by (unfold h0, pq_Push; rewrite app_length; cbn; lia).
  rewrite L0. replace (S n - 1)%nat with n by lia.
  destruct (up_spec (S n) h0 n (S n)) as (h' & E & S & O').
  - lia.
  - lia.
  - lia.
  - intros p c Lc C NE. unfold h0, pq_Push. rewrite !hv_app by (unfold child in C; lia).
    apply O; [lia|assumption].
  - intros g c _ C Lc. unfold child in C. lia.
  - exists h'. split; [assumption|]. destruct S as (Len & Pm & Ix & _).
    split; [split|split].
    + rewrite Len, L0. assumption.
    + apply Ix. intros i y. unfold h0, pq_Push.
      destruct (Nat.ltb_spec i n) as [Li|Li].
      * rewrite nth_error_app1 by assumption. apply I.
      * rewrite nth_error_app2 by assumption. fold n.
        destruct (i - n)%nat eqn:D; cbn; [|destruct n0; discriminate].
        intros [= <-]. cbn. lia.
    + eapply perm_trans; [exact Pm|]. unfold h0, pq_Push. rewrite map_app. cbn.
      rewrite h_data_set_idx. apply Permutation_sym, Permutation_cons_append.
    + congruence.
Qed.

(* ---- heap.Pop ---- *)
Lemma heap_Pop_spec h : heap_inv h -> h <> [] ->
  exists x h', heap_Pop h = Ok (x, h') /\ heap_inv h' /\ h_idx x = -1 /\
    h_data x = h_data (nth 0 h dummy) /\
    Permutation (h_data x :: map h_data h') (map h_data h) /\
    (forall y, In y h -> h_min x <= h_min y) /\
    S (List.length h') = List.length h.
Proof.
  intros [O I] NE. unfold heap_Pop, pq_Len.
  destruct (List.length h) as [|n] eqn:Len; [destruct h; [congruence|discriminate]|].
  rewrite Swap_ok by lia. cbn [obind].
  set (h1 := swapped h 0 n).
  assert (L1 : List.length h1 = S n) by (unfold h1; rewrite swapped_length; assumption).
  assert (V : forall k, hv h1 k = if Nat.eqb k n then hv h 0 else if Nat.eqb k 0 then hv h n else hv h k)
    by (intros k; apply hv_swapped; lia).
  destruct (down_spec h1 0 n) as (h2 & moved & E & S & _ & O2).
  - lia.
  - intros p c Lc C NEc NEp. rewrite !V.
    destruct (Nat.eqb_spec c n); [lia|]. destruct (Nat.eqb_spec p n); [unfold child in C; lia|].
    destruct (Nat.eqb_spec c 0); [lia|]. destruct (Nat.eqb_spec p 0); [lia|].
    apply O; [lia|assumption].
  - intros g c C. unfold child in C. lia.
  - rewrite E. cbn [obind fst].
    destruct S as (L2 & Pm & Ix & Keep).
    assert (Last : nth_error h2 n = Some (h_set_idx (nth 0 h dummy) (Z.of_nat n))).
    { rewrite Keep by lia. unfold h1. rewrite swapped_nth_error by lia. rewrite Nat.eqb_refl. reflexivity. }
    unfold pq_Pop. rewrite L2, L1, Last.
    eexists. eexists. split; [reflexivity|].
    assert (Lf : List.length (firstn n h2) = n) by (rewrite firstn_length; lia).
    split; [split|split; [reflexivity|split; [reflexivity|split; [|split]]]].
    + rewrite Lf. intros p c Lc C. rewrite !hv_firstn by (unfold child in C; lia).
      apply O2; [assumption|assumption|left; unfold child in C; lia].
    + intros i y Hy.
      assert (Li : (i < n)%nat) by (rewrite <- Lf; apply nth_error_Some; congruence).
      rewrite nth_error_firstn in Hy by assumption. revert Hy. apply Ix.
      apply swapped_idx_ok; [lia|lia|assumption].
    + rewrite h_data_set_idx.
      eapply perm_trans; [|apply swapped_perm with (i := 0%nat) (j := n); lia]. fold h1.
      eapply perm_trans; [|exact Pm].
      rewrite (firstn_snoc h2 n _ ltac:(lia) Last) at 2. rewrite map_app. cbn.
      rewrite h_data_set_idx. apply Permutation_cons_append.
    + intros y Iy. destruct (In_hv h y Iy) as (c & Lc & <-). cbn.
      change (hv h 0 <= hv h c). apply (ordered_root_min h (S n)); [assumption|lia].
    + rewrite Lf. reflexivity.
Qed.

(* ---- heap.Fix on a valid index ---- *)
Lemma heap_Fix_nat_spec h i : (i < List.length h)%nat -> ord_except h (List.length h) i -> idx_ok h ->
  exists h', heap_Fix_nat h i = Ok h' /\ heap_inv h' /\
    Permutation (map h_data h') (map h_data h) /\ List.length h' = List.length h.
Proof.
  intros Li [A B] I. unfold heap_Fix_nat, pq_Len.
  destruct (down_spec h i (List.length h) ltac:(lia) A B) as (h1 & moved & E & S & Same & O1).
  rewrite E. cbn [obind fst snd]. destruct moved.
  - exists h1. destruct S as (L1 & Pm & Ix & _). split; [reflexivity|]. split; [split|split].
    + rewrite L1. intros p c Lc C. apply O1; auto.
    + auto.
    + assumption.
    + assumption.
  - rewrite (Same eq_refl) in *. clear Same S E.
    destruct (up_spec (S i) h i (List.length h) (le_n _) Li ltac:(lia)) as (h' & E & S & O').
    + intros p c Lc C NE. apply O1; auto.
    + assumption.
    + exists h'. destruct S as (L1 & Pm & Ix & _). split; [assumption|]. split; [split|split].
      * rewrite L1. assumption.
      * auto.
      * assumption.
      * assumption.
Qed.

(* ---- h_find ---- *)
Lemma h_find_some k h p x : h_find k h = Some (p, x) -> nth_error h p = Some x /\ h_key x = k.
Proof.
  revert p. induction h as [|y h IH]; intros p; cbn; [discriminate|].
  destruct (N.eqb_spec (h_key y) k) as [E|NE].
  - intros [= <- <-]. auto.
  - destruct (h_find k h) as [[q z]|]; [|discriminate]. intros [= <- <-]. cbn. apply IH. reflexivity.
Qed.

Lemma h_find_none k h : h_find k h = None -> forall x, In x h -> h_key x <> k.
Proof.
  induction h as [|y h IH]; cbn; [intros _ x []|].
  destruct (N.eqb_spec (h_key y) k) as [E|NE]; [discriminate|].
  destruct (h_find k h) as [[q z]|]; [discriminate|]. intros _ x [<-|Ix]; [assumption|]. apply IH; auto.
Qed.

Lemma hv_set_nth h p y k : (p < List.length h)%nat ->
  hv (set_nth p y h) k = if Nat.eqb k p then h_min y else hv h k.
Proof.
  intros L. unfold hv. destruct (Nat.ltb_spec k (List.length h)) as [Lk|Lk].
  - pose proof (nth_error_set_nth h p y k L) as E. destruct (Nat.eqb_spec k p).
    + rewrite (nth_of_nth_error _ _ _ E). reflexivity.
    + rewrite (nth_error_some h k Lk) in E. rewrite (nth_of_nth_error _ _ _ E). reflexivity.
  - destruct (Nat.eqb_spec k p); [lia|]. rewrite !nth_overflow by (rewrite ?set_nth_length; lia). reflexivity.
Qed.

(* ---- pq.Update of an item that is in the slice ---- *)
Lemma pq_Update_spec h k p x a i : heap_inv h -> h_find k h = Some (p, x) ->
  exists h', pq_Update h k a i = Ok h' /\ heap_inv h' /\
    Permutation (map h_data h') (map h_data (set_nth p (h_set_times x a i) h)) /\
    List.length h' = List.length h.
Proof.
  intros [O I] F. unfold pq_Update. rewrite F.
  destruct (h_find_some _ _ _ _ F) as [Hp Hk].
  assert (Lp : (p < List.length h)%nat) by (apply nth_error_Some; congruence).
  rewrite (I p x Hp). unfold heap_Fix.
  destruct (Z.leb_spec 0 (Z.of_nat p)); [|lia]. rewrite Nat2Z.id.
  set (h0 := set_nth p (h_set_times x a i) h).
  assert (L0 : List.length h0 = List.length h) by apply set_nth_length.
  destruct (heap_Fix_nat_spec h0 p) as (h' & E & HI & Pm & Len).
  - lia.
  - rewrite L0. split.
    + intros q c Lc C NEc NEq. unfold h0. rewrite !hv_set_nth by assumption.
      destruct (Nat.eqb_spec c p); [congruence|]. destruct (Nat.eqb_spec q p); [congruence|]. apply O; assumption.
    + intros g c Cg Cc Lc. unfold h0. rewrite !hv_set_nth by assumption.
      destruct (Nat.eqb_spec g p); [unfold child in *; lia|]. destruct (Nat.eqb_spec c p); [unfold child in *; lia|].
      pose proof (O g p Lp Cg). pose proof (O p c Lc Cc). lia.
  - intros q y. unfold h0. rewrite nth_error_set_nth by assumption.
    destruct (Nat.eqb_spec q p) as [->|]; [|apply I]. intros [= <-]. cbn. apply (I p x Hp).
  - exists h'. split; [assumption|]. split; [assumption|]. split; [assumption|]. congruence.
Qed.

(* heap.Fix(pq, -1) (a detached item) does nothing; other negative indices panic *)
Lemma heap_Fix_detached h : heap_Fix h (-1) = Ok h.
Proof. reflexivity. Qed.
Lemma heap_Fix_negative h i : i < -1 -> heap_Fix h i = Panic.
Proof.
  intros L. unfold heap_Fix. destruct (Z.leb_spec 0 i); [lia|]. destruct (Z.eqb_spec i (-1)); [lia|reflexivity].
Qed.
(* an index at or beyond Len() panics, except Fix(pq, 0) on the empty slice *)
Lemma heap_Fix_beyond h i : (List.length h <= i)%nat -> (0 < i)%nat -> heap_Fix_nat h i = Panic.
Proof.
  intros L Pos. unfold heap_Fix_nat, hp_down, pq_Len. cbn [hp_down_loop].
  destruct (Nat.leb_spec (List.length h) (2 * i + 1)); [|lia]. cbn [obind fst snd].
  rewrite Nat.ltb_irrefl. cbn [hp_up].
  destruct (Nat.eqb_spec ((i - 1) / 2) i); [lia|].
  unfold pq_Less, pq_minExpireTime. replace (nth_error h i) with (@None hitem); [reflexivity|].
  symmetry. apply nth_error_None. assumption.
Qed.
Lemma heap_Fix_empty : heap_Fix_nat [] 0 = Ok [].
Proof. reflexivity. Qed.

(* ---- termination of up / down within the fuel given, for ANY slice (no order assumed) ---- *)
Lemma hp_up_total : forall fuel h j, (j < List.length h)%nat -> (j < fuel)%nat ->
  exists h', hp_up fuel h j = Ok h' /\ List.length h' = List.length h.
Proof.
  induction fuel as [|fuel IH]; intros h j Lj Lf; [lia|].
  cbn [hp_up]. destruct (Nat.eqb_spec ((j - 1) / 2) j); [eauto|].
  rewrite Less_ok by lia. cbn [obind]. destruct (negb _); [eauto|].
  rewrite Swap_ok by lia. cbn [obind].
  destruct (IH (swapped h ((j - 1) / 2) j) ((j - 1) / 2)%nat) as (h' & E & L).
  - rewrite swapped_length. lia.
  - lia.
  - exists h'. rewrite swapped_length in L. auto.
Qed.

Lemma hp_down_loop_total : forall fuel h i n, (n <= List.length h)%nat -> (n - i < fuel)%nat ->
  exists h' i', hp_down_loop fuel h i n = Ok (h', i') /\ List.length h' = List.length h.
Proof.
  induction fuel as [|fuel IH]; intros h i n Ln Lf; [lia|].
  cbn [hp_down_loop]. destruct (Nat.leb_spec n (2 * i + 1)); [eauto|].
  assert (Go : forall j, (i < j < n)%nat ->
            exists h' i', (do lt <- pq_Less h j i;
                           if negb lt then Ok (h, i) else do h' <- pq_Swap h i j; hp_down_loop fuel h' j n) = Ok (h', i') /\
                          List.length h' = List.length h).
  { intros j Lj. rewrite Less_ok by lia. cbn [obind]. destruct (negb _); [eauto|].
    rewrite Swap_ok by lia. cbn [obind].
    destruct (IH (swapped h i j) j n) as (h' & i' & E & L).
    - rewrite swapped_length. assumption.
    - lia.
    - exists h', i'. rewrite swapped_length in L. auto. }
  destruct (Nat.ltb_spec (2 * i + 1 + 1) n) as [L2|L2].
  - rewrite Less_ok by lia. cbn [obind]. apply Go. destruct (_ <? _); lia.
  - cbn [obind]. apply Go. lia.
Qed.

(* ---- pq.Pop alone (drop the last slot) ---- *)
Lemma pq_Pop_spec h n x : List.length h = S n -> nth_error h n = Some x -> ordered h n -> idx_ok h ->
  pq_Pop h = Ok (h_set_idx x (-1), firstn n h) /\ heap_inv (firstn n h) /\
  Permutation (h_data x :: map h_data (firstn n h)) (map h_data h).
Proof.
  intros Len Last O I. unfold pq_Pop. rewrite Len, Last. split; [reflexivity|].
  assert (Lf : List.length (firstn n h) = n) by (rewrite firstn_length; lia).
  split; [split|].
  - rewrite Lf. intros p c Lc C. rewrite !hv_firstn by (unfold child in C; lia). apply O; assumption.
  - intros i y Hy. assert (Li : (i < n)%nat) by (rewrite <- Lf; apply nth_error_Some; congruence).
    rewrite nth_error_firstn in Hy by assumption. apply I. assumption.
  - rewrite (firstn_snoc h n x Len Last) at 2. rewrite map_app. cbn. apply Permutation_cons_append.
Qed.

(* ---- heap.Remove on a valid index ---- *)
Lemma heap_Remove_spec h i : heap_inv h -> (i < List.length h)%nat ->
  exists x h', heap_Remove h i = Ok (x, h') /\ heap_inv h' /\ h_idx x = -1 /\
    h_data x = h_data (nth i h dummy) /\
    Permutation (h_data x :: map h_data h') (map h_data h).
Proof.
  intros [O I] Li. unfold heap_Remove, pq_Len.
  destruct (List.length h) as [|n] eqn:Len; [lia|].
  destruct (Nat.eqb_spec n i) as [->|NE].
  - destruct (pq_Pop_spec h i (nth i h dummy) Len) as (E & HI' & Pm).
    + apply nth_error_some. lia.
    + intros p c Lc C. apply O; [lia|assumption].
    + assumption.
    + eexists. eexists. split; [exact E|]. split; [assumption|]. split; [reflexivity|]. split; [reflexivity|assumption].
  - assert (Lin : (i < n)%nat) by lia.
    rewrite Swap_ok by lia. cbn [obind].
    set (h1 := swapped h i n).
    assert (L1 : List.length h1 = S n) by (unfold h1; rewrite swapped_length; assumption).
    assert (V : forall k, hv h1 k = if Nat.eqb k n then hv h i else if Nat.eqb k i then hv h n else hv h k)
      by (intros k; apply hv_swapped; lia).
    assert (I1 : idx_ok h1) by (apply swapped_idx_ok; [lia|lia|assumption]).
    assert (A1 : forall p c, (c < n)%nat -> child p c -> c <> i -> p <> i -> hv h1 p <= hv h1 c).
    { intros p c Lc C NEc NEp. rewrite !V.
      destruct (Nat.eqb_spec c n); [lia|]. destruct (Nat.eqb_spec p n); [unfold child in C; lia|].
      destruct (Nat.eqb_spec c i); [lia|]. destruct (Nat.eqb_spec p i); [lia|]. apply O; [lia|assumption]. }
    assert (B1 : forall g c, child g i -> child i c -> (c < n)%nat -> hv h1 g <= hv h1 c).
    { intros g c Cg Cc Lc. rewrite !V.
      destruct (Nat.eqb_spec g n); [unfold child in *; lia|]. destruct (Nat.eqb_spec g i); [unfold child in *; lia|].
      destruct (Nat.eqb_spec c n); [lia|]. destruct (Nat.eqb_spec c i); [unfold child in *; lia|].
      pose proof (O g i ltac:(lia) Cg). pose proof (O i c ltac:(lia) Cc). lia. }
    destruct (down_spec h1 i n ltac:(lia) A1 B1) as (h2 & moved & E & Sw2 & Same & O2).
    rewrite E. cbn [obind fst snd].
    assert (Fin : exists h3, (if moved then Ok h2 else hp_up (S i) h2 i) = Ok h3 /\ sw n h1 h3 /\ ordered h3 n).
    { destruct moved.
      - exists h2. split; [reflexivity|]. split; [exact Sw2|]. intros p c Lc C. apply O2; auto.
      - rewrite (Same eq_refl) in *.
        destruct (up_spec (S i) h1 i n ltac:(lia) Lin ltac:(lia)) as (h3 & E3 & S3 & O3).
        + intros p c Lc C NEc. apply O2; auto.
        + assumption.
        + exists h3. auto. }
    destruct Fin as (h3 & -> & (L3 & Pm3 & Ix3 & Keep3) & O3). cbn [obind].
    assert (Last : nth_error h3 n = Some (h_set_idx (nth i h dummy) (Z.of_nat n))).
    { rewrite Keep3 by lia. unfold h1. rewrite swapped_nth_error by lia. rewrite Nat.eqb_refl. reflexivity. }
    destruct (pq_Pop_spec h3 n _ ltac:(lia) Last O3 (Ix3 I1)) as (EP & HI' & Pm).
    eexists. eexists. split; [exact EP|]. split; [assumption|]. split; [reflexivity|]. split; [reflexivity|].
    eapply perm_trans; [exact Pm|]. eapply perm_trans; [exact Pm3|]. apply swapped_perm; lia.
Qed.

(* ---- heap.Init: establishes the order from ANY slice with consistent index fields ---- *)
Lemma init_loop_spec : forall cnt h n, n = List.length h ->
  (forall p c, (c < n)%nat -> child p c -> (cnt <= p)%nat -> hv h p <= hv h c) ->
  exists h', hp_init_loop cnt h n = Ok h' /\ sw n h h' /\ ordered h' n.
Proof.
  induction cnt as [|i IH]; intros h n Ln Inv0.
  - exists h. split; [reflexivity|]. split; [apply sw_refl|]. intros p c Lc C. apply Inv0; [assumption|assumption|lia].
  - cbn [hp_init_loop].
    destruct (down_spec_lo h i n i ltac:(lia) (le_n _)) as (h1 & moved & E & S1 & _ & O1).
    + intros p c Lc C Lp NEc NEp. apply Inv0; [assumption|assumption|lia].
    + intros g c Lg Cg. unfold child in Cg. lia.
    + rewrite E. cbn [obind fst].
      destruct (IH h1 n) as (h' & E' & S' & O').
      * destruct S1 as (L1 & _). congruence.
      * intros p c Lc C Lp. apply O1; [assumption|assumption|assumption|]. left. unfold child in C. lia.
      * exists h'. split; [assumption|]. split; [eapply sw_trans; eassumption|assumption].
Qed.

Lemma heap_Init_spec h : idx_ok h ->
  exists h', heap_Init h = Ok h' /\ heap_inv h' /\ Permutation (map h_data h') (map h_data h) /\
    List.length h' = List.length h.
Proof.
  intros I. unfold heap_Init, pq_Len.
  destruct (init_loop_spec (List.length h / 2) h (List.length h) eq_refl) as (h' & E & (L & Pm & Ix & _) & O).
  - intros p c Lc C Lp. unfold child in C. lia.
  - exists h'. split; [assumption|]. split; [split; [rewrite L; assumption|auto]|]. split; assumption.
Qed.
