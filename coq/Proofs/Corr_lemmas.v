(* Proofs for property C07 (Model/Corr.v, Model/Expiry.v against Model/CorrSpec.v). *)
From Coq Require Import List Bool NArith ZArith Lia String.
From Coq.Strings Require Import Byte.
From Verif.Base Require Import Bytes Outcome.
From Verif.Model Require Import IE KMap Pq Corr Expiry ExpirySpec CorrSpec.
From Verif.Proofs Require Import KMap_lemmas Expiry_lemmas.
Import ListNotations.
Local Open Scope Z_scope.

(* ---- records ---- *)
Lemma get_set_same n v r g : get n r = Some g ->
  get n (set_val n v r) = Some (mkField (fd_name g) (fd_dt g) v).
Proof.
  induction r as [|f r IH]; cbn; [discriminate|].
  destruct (String.eqb_spec (fd_name f) n) as [E|NE].
  - intros [= <-]. cbn. rewrite E, String.eqb_refl. reflexivity.
  - intros G. cbn. destruct (String.eqb_spec (fd_name f) n); [contradiction|auto].
Qed.
Lemma get_set_other n n' v r : n' <> n -> get n' (set_val n v r) = get n' r.
Proof.
  intros NE. induction r as [|f r IH]; cbn; [reflexivity|].
  destruct (String.eqb_spec (fd_name f) n) as [E|NE1]; cbn.
  - destruct (String.eqb_spec (fd_name f) n'); [congruence|reflexivity].
  - rewrite IH. reflexivity.
Qed.
Lemma set_val_length n v r : List.length (set_val n v r) = List.length r.
Proof.
  induction r as [|f r IH]; cbn; [reflexivity|].
  destruct (String.eqb (fd_name f) n); cbn; [reflexivity|rewrite IH; reflexivity].
Qed.

Definition inc_nonempty (inc : record) (n : string) : bool :=
  match get n inc with
  | Some f => match corr_nonempty (fd_dt f) (fd_val f) with Ok (Some true) => true | _ => false end
  | None => false
  end.
Lemma takes_incoming_eq cf inc n : takes_incoming cf inc n = s_mem n cf && inc_nonempty inc n.
Proof. reflexivity. Qed.

(* correlateRecords: every field ends up with the incoming value if that is non-empty (per
   data type) and the field is a correlate field, and keeps the stored value otherwise *)
Lemma correlate_get cf : forall inc ex rec', correlate cf inc ex = Ok rec' ->
  (forall n, option_map fd_val (get n rec') = merged_val cf inc ex n) /\
  List.length rec' = List.length ex.
Proof.
  induction cf as [|n0 rest IH]; intros inc ex rec' H.
  - cbn in H. injection H as <-. split; [|reflexivity]. intros n. reflexivity.
  - cbn [correlate] in H.
    assert (Step : forall ex1, correlate rest inc ex1 = Ok rec' ->
              List.length ex1 = List.length ex ->
              (forall n, option_map fd_val (get n ex1) =
                         if String.eqb n0 n && inc_nonempty inc n
                         then option_map fd_val (get n inc) else option_map fd_val (get n ex)) ->
              (forall n, option_map fd_val (get n rec') = merged_val (n0 :: rest) inc ex n) /\
              List.length rec' = List.length ex).
    { intros ex1 C L V. destruct (IH _ _ _ C) as [G L']. split; [|congruence].
      intros n. rewrite G. unfold merged_val. rewrite !takes_incoming_eq. cbn [s_mem].
      rewrite V. destruct (String.eqb n0 n), (s_mem n rest), (inc_nonempty inc n); reflexivity. }
    destruct (get n0 inc) as [f|] eqn:Gi.
    + destruct (corr_nonempty (fd_dt f) (fd_val f)) as [ne| | |] eqn:Ne; cbn [obind] in H; try discriminate.
      assert (NEi : inc_nonempty inc n0 = match ne with Some true => true | _ => false end).
      { unfold inc_nonempty. rewrite Gi, Ne. reflexivity. }
      destruct ne as [[|]|].
      * destruct (get n0 ex) as [g|] eqn:Ge; [|discriminate].
        destruct (kind_accepts (fd_dt f) (fd_val g)); [|discriminate].
        apply (Step _ H); [apply set_val_length|]. intros n.
        destruct (String.eqb_spec n0 n) as [<-|NE].
        -- rewrite NEi. cbn. rewrite (get_set_same _ _ _ _ Ge), Gi. reflexivity.
        -- cbn. rewrite get_set_other by congruence. reflexivity.
      * apply (Step _ H); [reflexivity|]. intros n.
        destruct (String.eqb_spec n0 n) as [<-|NE]; [rewrite NEi|]; reflexivity.
      * apply (Step _ H); [reflexivity|]. intros n.
        destruct (String.eqb_spec n0 n) as [<-|NE]; [rewrite NEi|]; reflexivity.
    + apply (Step _ H); [reflexivity|]. intros n.
      destruct (String.eqb_spec n0 n) as [<-|NE]; [|reflexivity].
      unfold inc_nonempty. rewrite Gi. reflexivity.
Qed.

(* ---- which node ---- *)
Lemma spec_src_ok r b : is_from_src r = Ok b -> spec_src r = b.
Proof. unfold spec_src. intros ->. reflexivity. Qed.
Lemma spec_dst_ok r b : is_from_dst r = Ok b -> spec_dst r = b.
Proof. unfold spec_dst. intros ->. reflexivity. Qed.

Lemma same_node_val r ex same : same_node r ex = Ok same -> one_side r = true ->
  same = (spec_src r && spec_src ex) || (spec_dst r && spec_dst ex).
Proof.
  unfold same_node, one_side. intros H X.
  destruct (is_from_src r) as [rs| | |] eqn:S1; cbn [obind] in H; try discriminate.
  rewrite (spec_src_ok _ _ S1) in *. destruct rs.
  - destruct (is_from_src ex) as [es| | |] eqn:S2; cbn [obind] in H; try discriminate.
    rewrite (spec_src_ok _ _ S2). destruct es.
    + injection H as <-. reflexivity.
    + destruct (is_from_dst r) as [rd| | |] eqn:D1; cbn [obind] in H; try discriminate.
      rewrite (spec_dst_ok _ _ D1) in *. destruct rd; [discriminate|]. injection H as <-. reflexivity.
  - cbn [obind] in H.
    destruct (is_from_dst r) as [rd| | |] eqn:D1; cbn [obind] in H; try discriminate.
    rewrite (spec_dst_ok _ _ D1) in *. destruct rd; [|discriminate].
    rewrite (spec_dst_ok _ _ H). reflexivity.
Qed.

(* ---- addOrUpdateRecordInMap, flow part ---- *)
Lemma add_or_update_cases P now k r s s' : add_or_update P now k r s = Ok s' ->
  exists ft cr, flow_type_of r = Ok ft /\ is_correlation_required ft r = Ok cr /\
  match km_find k (flows s) with
  | Some f0 => exists f', flows s' = km_put k f' (flows s) /\
      ((cr = true /\ f_ready f0 = false /\ exists rec', same_node r (f_rec f0) = Ok false /\
          correlate (pCF P) r (f_rec f0) = Ok rec' /\
          f' = mkFlow true (f_retries f0) true (f_v4 f0) rec') \/
       (f' = f0 /\ (cr = true -> f_ready f0 = false -> same_node r (f_rec f0) = Ok true)))
  | None =>
      flows s' = km_put k (mkFlow (negb cr) 0 (if cr then false else negb (N.eqb ft flow_type_inter_node))
                             (key_is_v4 k) r) (flows s) /\
      (cr = true -> exists b, is_from_src r = Ok b)
  end.
Proof.
  unfold add_or_update. intros H.
  destruct (flow_type_of r) as [ft| | |] eqn:FT; cbn [obind] in H; try discriminate.
  destruct (is_correlation_required ft r) as [cr| | |] eqn:CR; cbn [obind] in H; try discriminate.
  exists ft, cr. split; [first [reflexivity|assumption]|]. split; [first [reflexivity|assumption]|].
  destruct (km_find k (flows s)) as [f0|] eqn:F.
  - destruct cr.
    + destruct (negb (f_ready f0)) eqn:R.
      * apply negb_true_iff in R.
        destruct (same_node r (f_rec f0)) as [same| | |] eqn:SN; cbn [obind] in H; try discriminate.
        destruct same.
        -- cbn [obind] in H. destruct (is_from_src r); cbn [obind] in H; try discriminate.
           injection H as <-. exists f0. split; [reflexivity|]. right. split; [reflexivity|auto].
        -- destruct (correlate (pCF P) r (f_rec f0)) as [rec'| | |] eqn:C; cbn [obind] in H; try discriminate.
           destruct (is_from_src r); cbn [obind] in H; try discriminate.
           injection H as <-. eexists. split; [reflexivity|]. left. repeat split; try assumption.
           exists rec'. repeat split; assumption.
      * apply negb_false_iff in R. cbn [obind] in H.
        destruct (is_from_src r); cbn [obind] in H; try discriminate.
        injection H as <-. exists f0. split; [reflexivity|]. right. split; [reflexivity|].
        intros _ R'. congruence.
    + cbn [obind] in H. injection H as <-. exists f0. split; [reflexivity|]. right.
      split; [reflexivity|discriminate].
  - destruct cr.
    + destruct (is_from_src r) as [b| | |] eqn:S; cbn [obind] in H; try discriminate.
      injection H as <-. split; [reflexivity|]. intros _. exists b. reflexivity.
    + cbn [obind] in H. injection H as <-. split; [reflexivity|discriminate].
Qed.

(* ---- boolean equalities ---- *)
Lemma bytes_eqb_refl l : bytes_eqb l l = true.
Proof. induction l; cbn; [reflexivity|]. rewrite N.eqb_refl. assumption. Qed.
Lemma fval_eqb_refl v : fval_eqb v v = true.
Proof.
  destruct v; cbn; rewrite ?N.eqb_refl, ?Z.eqb_refl, ?bytes_eqb_refl, ?eqb_reflx; reflexivity.
Qed.
Lemma rec_eqb_refl r : rec_eqb r r = true.
Proof.
  induction r as [|f r IH]; cbn; [reflexivity|].
  unfold field_eqb. rewrite String.eqb_refl, (proj2 (dtype_eqb_eq _ _) eq_refl), fval_eqb_refl, IH.
  reflexivity.
Qed.
Lemma oval_eqb_refl o : oval_eqb o o = true.
Proof. destruct o; cbn; [apply fval_eqb_refl|reflexivity]. Qed.
Lemma flow_same_refl_on f0 f : f_ready f = f_ready f0 -> f_filled f = f_filled f0 -> f_rec f = f_rec f0 ->
  flow_same f0 f = true.
Proof. unfold flow_same. intros -> -> ->. rewrite !eqb_reflx, rec_eqb_refl. reflexivity. Qed.

(* ---- the ghost invariant ---- *)
Definition GI (s : st) (g : kmap ghost) : Prop :=
  forall k, (km_find k g = None <-> km_find k (flows s) = None) /\
  forall x f, km_find k g = Some x -> km_find k (flows s) = Some f -> g_ok x = true ->
    if g_cr x
    then f_ready f = (g_src x && g_dst x) /\
         (f_ready f = false ->
          spec_src (f_rec f) = g_src x /\ spec_dst (f_rec f) = g_dst x /\ xorb (g_src x) (g_dst x) = true)
    else f_ready f = true.

Lemma GI_init : GI init [].
Proof. intros k. split; [split; reflexivity|]. intros x f H. discriminate. Qed.

Lemma find_sync k g post :
  km_find k (ghost_sync g post) = if km_mem k (flows post) then km_find k g else None.
Proof.
  unfold ghost_sync. induction g as [|[k0 x0] g IH]; cbn; [destruct (km_mem k (flows post)); reflexivity|].
  destruct (km_mem k0 (flows post)) eqn:M; cbn.
  - destruct (N.eqb_spec k0 k) as [->|NE]; [rewrite M; reflexivity|apply IH].
  - destruct (N.eqb_spec k0 k) as [->|NE]; [rewrite M in IH; rewrite IH, M; reflexivity|apply IH].
Qed.

(* an operation that keeps readiness and record of every flow it keeps *)
Definition kept (pre post : st) : Prop :=
  forall k f, km_find k (flows post) = Some f ->
    exists f0, km_find k (flows pre) = Some f0 /\ f_ready f = f_ready f0 /\
               f_filled f = f_filled f0 /\ f_rec f = f_rec f0.

Lemma kept_refl s : kept s s.
Proof. intros k f F. exists f. auto. Qed.
Lemma kept_trans a b c : kept a b -> kept b c -> kept a c.
Proof.
  intros AB BC k f F. destruct (BC k f F) as (f1 & F1 & R1 & L1 & E1).
  destruct (AB k f1 F1) as (f0 & F0 & R0 & L0 & E0). exists f0. repeat split; congruence.
Qed.

Lemma GI_kept pre post g : GI pre g -> kept pre post -> GI post (ghost_sync g post).
Proof.
  intros G K k. rewrite find_sync. unfold km_mem. destruct (km_find k (flows post)) as [f|] eqn:F.
  - destruct (K k f F) as (f0 & F0 & R & _ & E). destruct (G k) as [Gn Gv]. split.
    + split; [intros X; apply Gn in X; congruence|discriminate].
    + intros x f' X [= <-] OK. specialize (Gv x f0 X F0 OK). rewrite R, E. assumption.
  - split; [split; reflexivity|discriminate].
Qed.

Lemma flows_kept_ok pre post : NoDup (km_keys (flows post)) -> kept pre post -> flows_kept pre post = true.
Proof.
  intros ND K. unfold flows_kept. apply forallb_forall. intros [k f] I. cbn.
  destruct (K k f (km_In_find _ _ _ ND I)) as (f0 & -> & R & L & E). apply flow_same_refl_on; assumption.
Qed.

(* the scan only removes flows or bumps their retry counter *)
Lemma scan_loop_kept v P now fails : forall picks s cbs s' cbs' err,
  NoDup (km_keys (flows s)) ->
  scan_loop v P now fails picks s cbs = Some (s', cbs', err) -> kept s s'.
Proof.
  induction picks as [|p rest IH]; intros s cbs s' cbs' err ND H.
  - cbn in H. destruct (min_deadline (queue s)); [destruct (now <? z)|]; try discriminate;
      injection H as <- _ _; apply kept_refl.
  - cbn [scan_loop] in H. destruct (pop_pick p (queue s)) as [[d q']|]; [|discriminate].
    destruct ((now <? fst d) && (now <? snd d)); [discriminate|].
    destruct (km_find p (flows s)) as [f|] eqn:F; [|discriminate].
    assert (Krem : kept s (mkSt (km_remove p (flows s)) q')).
    { intros k f1 F1. cbn in F1. destruct (N.eq_dec k p) as [->|NE].
      - rewrite km_find_remove_same in F1 by assumption. discriminate.
      - rewrite km_find_remove_other in F1 by assumption. exists f1. auto. }
    destruct (negb (f_ready f)).
    + destruct (pMR P <? f_retries f + 1).
      * eapply kept_trans; [exact Krem|]. eapply IH; [|eassumption]. cbn. apply km_remove_NoDup. assumption.
      * eapply kept_trans; [|eapply IH; [|eassumption]; cbn; apply km_put_NoDup; assumption].
        intros k f1 F1. cbn in F1. rewrite km_find_put in F1.
        destruct (N.eqb_spec p k) as [<-|NE]; [injection F1 as <-; exists f; auto|exists f1; auto].
    + destruct (n_mem p fails).
      * destruct rest; [|discriminate]. destruct v; injection H as <- _ _; intros k f1 F1; exists f1; auto.
      * destruct (passed v (snd d) now).
        -- eapply kept_trans; [exact Krem|]. eapply IH; [|eassumption]. cbn. apply km_remove_NoDup. assumption.
        -- destruct (passed v (fst d) now); (eapply kept_trans; [|eapply IH; [|eassumption]; cbn; assumption]);
             intros k f1 F1; exists f1; auto.
Qed.

(* ---- one record ---- *)
Lemma spec_cr_ok r ft cr : flow_type_of r = Ok ft -> is_correlation_required ft r = Ok cr -> spec_cr r = cr.
Proof. unfold spec_cr. intros -> H. cbn. rewrite H. reflexivity. Qed.
Lemma spec_ft_ok r ft : flow_type_of r = Ok ft -> spec_ft r = ft.
Proof. unfold spec_ft. intros ->. reflexivity. Qed.

Lemma rec_step_ok P now k r pre post g :
  Inv pre -> Inv post -> GI pre g -> add_or_update P now k r pre = Ok post ->
  GI post (ghost_sync (ghost_rec g k r) post) /\
  check_corr_step P now (ORec k r) RRec (ghost_rec g k r) pre post = true.
Proof.
  intros HI HI' G H. destruct (add_or_update_cases _ _ _ _ _ _ H) as (ft & cr & FT & CR & Cases).
  pose proof (spec_cr_ok _ _ _ FT CR) as SCR. pose proof (spec_ft_ok _ _ FT) as SFT.
  destruct (G k) as [Gn Gv].
  (* all other flows are untouched *)
  assert (Oth : forall f', flows post = km_put k f' (flows pre) ->
            forall k', k' <> k -> km_find k' (flows post) = km_find k' (flows pre)).
  { intros f' E k' NE. rewrite E, km_find_put. destruct (N.eqb_spec k k'); [congruence|reflexivity]. }
  assert (Others : forall f', flows post = km_put k f' (flows pre) ->
            forallb (fun e => N.eqb (fst e) k ||
                       match km_find (fst e) (flows pre) with
                       | Some f0 => flow_same f0 (snd e) | None => false end) (flows post) = true).
  { intros f' E. apply forallb_forall. intros [k' f1] I. cbn.
    destruct (N.eqb_spec k' k) as [->|NE]; [reflexivity|]. cbn.
    destruct HI' as (ND & _). pose proof (km_In_find _ _ _ ND I) as F1.
    rewrite (Oth f' E k' NE) in F1. rewrite F1. apply flow_same_refl_on; reflexivity. }
  (* the ghost invariant for the other keys *)
  assert (GIoth : forall f' x', flows post = km_put k f' (flows pre) ->
            ghost_rec g k r = km_put k x' g ->
            (forall x f, x = x' -> f = f' -> g_ok x = true ->
               if g_cr x then f_ready f = (g_src x && g_dst x) /\
                   (f_ready f = false -> spec_src (f_rec f) = g_src x /\ spec_dst (f_rec f) = g_dst x /\
                                         xorb (g_src x) (g_dst x) = true)
               else f_ready f = true) ->
            GI post (ghost_sync (ghost_rec g k r) post)).
  { intros f' x' E GE Hk k'. rewrite find_sync, GE, km_find_put. unfold km_mem. rewrite E, km_find_put.
    destruct (N.eqb_spec k k') as [<-|NE].
    - split; [split; discriminate|]. intros x f [= <-] [= <-]. apply Hk; reflexivity.
    - destruct (G k') as [Gn' Gv']. destruct (km_find k' (flows pre)) as [f1|] eqn:F1.
      + split; [split; [intros X; apply Gn' in X; discriminate|discriminate]|].
        intros x f X [= <-]. apply Gv'; [assumption|reflexivity].
      + split; [split; reflexivity|discriminate]. }
  destruct (km_find k (flows pre)) as [f0|] eqn:F0.
  - (* existing flow *)
    destruct Cases as (f' & E & Cs).
    destruct (km_find k g) as [x|] eqn:X;
      [|exfalso; assert (Some f0 = None) by (apply Gn; reflexivity); discriminate].
    specialize (Gv x f0 eq_refl eq_refl).
    assert (GE : ghost_rec g k r = km_put k (mkGhost (g_cr x) (g_src x || spec_src r) (g_dst x || spec_dst r)
                      (g_ok x && Bool.eqb (spec_cr r) (g_cr x) && (negb (spec_cr r) || one_side r))) g).
    { unfold ghost_rec. rewrite X. reflexivity. }
    set (x' := mkGhost _ _ _ _) in GE.
    (* the per-flow statement, from the hypotheses recorded in the ghost *)
    assert (Main : g_ok x' = true ->
              if g_cr x' then f_ready f' = (g_src x' && g_dst x') /\
                  (f_ready f' = false -> spec_src (f_rec f') = g_src x' /\ spec_dst (f_rec f') = g_dst x' /\
                                         xorb (g_src x') (g_dst x') = true)
              else f_ready f' = true).
    { unfold x'. cbn. rewrite !andb_true_iff. intros [[OK EQ] OS]. apply eqb_prop in EQ.
      specialize (Gv OK). assert (CRv : cr = g_cr x) by congruence. destruct (g_cr x) eqn:GC.
      - rewrite EQ in OS. cbn in OS. destruct Gv as [Rdy Br].
        destruct Cs as [(_ & R0 & rec' & SN & _ & ->)|(-> & SNt)].
        + (* correlation: the record comes from the other node *)
          cbn. destruct (Br R0) as (S0 & D0 & XO).
          pose proof (same_node_val _ _ _ SN OS) as V. rewrite S0, D0 in V.
          unfold one_side in OS. split; [|discriminate].
          destruct (spec_src r), (spec_dst r), (g_src x), (g_dst x); cbn in *; congruence.
        + destruct (f_ready f0) eqn:R0.
          * split; [|discriminate]. symmetry in Rdy. apply andb_true_iff in Rdy. destruct Rdy as [-> ->]. reflexivity.
          * destruct (Br eq_refl) as (S0 & D0 & XO).
            pose proof (same_node_val _ _ _ (SNt CRv eq_refl) OS) as V. rewrite S0, D0 in V.
            unfold one_side in OS.
            assert (g_src x || spec_src r = g_src x /\ g_dst x || spec_dst r = g_dst x) as [-> ->].
            { destruct (spec_src r), (spec_dst r), (g_src x), (g_dst x); cbn in *; try discriminate; auto. }
            split; [assumption|]. intros _. auto.
      - destruct Cs as [(C & _)|(-> & _)]; [congruence|]. assumption. }
    split.
    + apply (GIoth f' x' E GE). intros ? ? -> ->. exact Main.
    + unfold check_corr_step. rewrite (Others f' E), andb_true_r.
      unfold check_corr_rec. rewrite GE, km_find_put, N.eqb_refl, E, km_find_put, N.eqb_refl, F0.
      rewrite andb_true_iff. split.
      * destruct (g_ok x') eqn:OK'; [|reflexivity]. cbn [negb orb]. specialize (Main eq_refl).
        destruct (g_cr x'); [rewrite (proj1 Main); apply eqb_reflx|assumption].
      * destruct Cs as [(_ & R0 & rec' & _ & C & ->)|(-> & _)].
        -- cbn [f_ready f_filled f_rec f_retries]. rewrite Z.eqb_refl. cbn [andb]. rewrite R0. cbn [negb andb].
           destruct (correlate_get _ _ _ _ C) as [Gt Ln].
           rewrite andb_true_iff. split; [|apply Nat.eqb_eq; assumption].
           apply forallb_forall. intros fd _. rewrite Gt. apply oval_eqb_refl.
        -- rewrite Z.eqb_refl. cbn [andb]. destruct (f_ready f0); cbn [negb andb]; apply flow_same_refl_on; reflexivity.
  - (* new flow *)
    destruct Cases as (E & Src).
    assert (X : km_find k g = None) by (apply Gn; reflexivity).
    assert (GE : ghost_rec g k r = km_put k (mkGhost (spec_cr r) (spec_src r) (spec_dst r)
                                                (negb (spec_cr r) || one_side r)) g).
    { unfold ghost_rec. rewrite X. reflexivity. }
    set (x' := mkGhost _ _ _ _) in GE. set (f' := mkFlow _ _ _ _ _) in E.
    assert (Main : g_ok x' = true ->
              if g_cr x' then f_ready f' = (g_src x' && g_dst x') /\
                  (f_ready f' = false -> spec_src (f_rec f') = g_src x' /\ spec_dst (f_rec f') = g_dst x' /\
                                         xorb (g_src x') (g_dst x') = true)
              else f_ready f' = true).
    { unfold x', f'. cbn. rewrite SCR. destruct cr; cbn; [|reflexivity]. unfold one_side. intros OS.
      split; [destruct (spec_src r), (spec_dst r); cbn in *; congruence|]. intros _. auto. }
    split.
    + apply (GIoth f' x' E GE). intros ? ? -> ->. exact Main.
    + unfold check_corr_step. rewrite (Others f' E), andb_true_r.
      unfold check_corr_rec. rewrite GE, km_find_put, N.eqb_refl, E, km_find_put, N.eqb_refl, F0.
      rewrite andb_true_iff. split.
      * destruct (g_ok x') eqn:OK'; [|reflexivity]. cbn [negb orb]. specialize (Main eq_refl).
        destruct (g_cr x'); [rewrite (proj1 Main); apply eqb_reflx|assumption].
      * unfold f'. cbn [f_ready f_filled f_rec f_retries]. rewrite rec_eqb_refl, SCR, SFT. cbn.
        destruct cr; cbn; [reflexivity|apply eqb_reflx].
Qed.

(* ---- whole histories ---- *)
Lemma corr_step_ok P now o pre now' r post g : wf_params P = true ->
  Inv pre -> GI pre g -> step Fixed P now o pre = Done now' r post ->
  let g1 := match o with ORec k rec => ghost_rec g k rec | _ => g end in
  GI post (ghost_sync g1 post) /\ check_corr_step P now o r g1 pre post = true.
Proof.
  intros WF HI G H. destruct (step_ok _ _ _ _ _ _ _ WF HI H) as (HI' & _ & _).
  destruct o as [k rec|d|fails picks|]; cbn in H.
  - destruct (add_or_update P now k rec pre) eqn:A; try discriminate. injection H as <- <- <-.
    apply rec_step_ok; assumption.
  - injection H as <- <- <-. cbn. split; [apply (GI_kept pre); [assumption|apply kept_refl]|].
    apply flows_kept_ok; [apply HI|apply kept_refl].
  - unfold scan in H. destruct (scan_loop Fixed P now fails picks pre []) as [[[s' cbs] err]|] eqn:S; [|discriminate].
    injection H as <- <- <-.
    assert (K : kept pre s') by (eapply scan_loop_kept; [apply HI|eassumption]).
    destruct (scan_loop_spec P now fails WF _ _ _ _ _ _ HI S) as (_ & _ & _ & _ & Cbs & _ & Ent & _).
    cbn. split; [apply (GI_kept pre); assumption|].
    rewrite !andb_true_iff. repeat split.
    + cbn in Cbs. subst cbs. apply forallb_forall. intros k I. apply filter_In in I. apply I.
    + apply forallb_forall. intros k I. rewrite Ent. apply n_mem_In in I. rewrite I.
      rewrite entry_eqb_refl. apply orb_true_r.
    + apply flows_kept_ok; [apply HI'|assumption].
  - injection H as <- <- <-. cbn. split; [apply (GI_kept pre); [assumption|apply kept_refl]|].
    apply flows_kept_ok; [apply HI|apply kept_refl].
Qed.

Lemma run_corr P : wf_params P = true ->
  forall ops now s g, Inv s -> GI s g -> corr_from P ops (fst (run Fixed P ops now s)) now s g = true.
Proof.
  intros WF. induction ops as [|o ops IH]; intros now s g HI G; [reflexivity|].
  cbn [run]. destruct (step Fixed P now o s) as [now' r s'| |] eqn:S; [|reflexivity|reflexivity].
  destruct (step_ok _ _ _ _ _ _ _ WF HI S) as (HI' & _ & ->).
  destruct (corr_step_ok _ _ _ _ _ _ _ g WF HI G S) as (G' & C).
  specialize (IH (now + op_advance o) s' _ HI' G').
  destruct (run Fixed P ops (now + op_advance o) s') as [tr e]. cbn in *. rewrite C, IH. reflexivity.
Qed.

Lemma C07_correlation_lemma P ops : wf_params P = true ->
  C07_holds_on P ops (fst (run Fixed P ops 0 init)) = true.
Proof. intros WF. apply run_corr; [assumption|apply Inv_init|apply GI_init]. Qed.

(* ---- corollaries in the words of the property ---- *)
Lemma s_mem_In n l : In n l -> s_mem n l = true.
Proof.
  induction l as [|x l IH]; cbn; [tauto|]. intros [->|I]; [rewrite String.eqb_refl; reflexivity|].
  rewrite IH by assumption. apply orb_true_r.
Qed.

(* a correlate field of a supported type that is non-empty on either side is non-empty in the
   merged record *)
Lemma correlate_nonempty cf inc ex rec' n fi fe a b :
  correlate cf inc ex = Ok rec' -> In n cf ->
  get n inc = Some fi -> get n ex = Some fe -> fd_dt fe = fd_dt fi ->
  corr_nonempty (fd_dt fi) (fd_val fi) = Ok (Some a) ->
  corr_nonempty (fd_dt fi) (fd_val fe) = Ok (Some b) ->
  exists fm, get n rec' = Some fm /\ corr_nonempty (fd_dt fi) (fd_val fm) = Ok (Some (a || b)).
Proof.
  intros C I Gi Ge DT Na Nb. destruct (correlate_get _ _ _ _ C) as [G _]. specialize (G n).
  unfold merged_val, takes_incoming in G. rewrite (s_mem_In _ _ I), Gi, Ge, Na in G. cbn in G.
  destruct (get n rec') as [fm|]; [|destruct a; discriminate]. exists fm. split; [reflexivity|].
  destruct a; cbn in G; injection G as ->; [assumption|]. assumption.
Qed.

Lemma scan_callbacks_ready P now fails picks s s' cbs err : wf_params P = true -> Inv s ->
  scan Fixed P now fails picks s = Some (s', cbs, err) -> forall k, In k cbs -> ready_in s k = true.
Proof.
  intros WF HI H k I. destruct (scan_loop_spec P now fails WF _ _ _ _ _ _ HI H) as (_ & _ & _ & _ & Cbs & _).
  cbn in Cbs. subst cbs. apply filter_In in I. apply I.
Qed.

Lemma cr_only_inter_node ft r : ft <> flow_type_inter_node -> is_correlation_required ft r = Ok false.
Proof. unfold is_correlation_required. intros NE. destruct (N.eqb_spec ft flow_type_inter_node); [contradiction|reflexivity]. Qed.

Lemma new_flow_ready P now k r s s' : add_or_update P now k r s = Ok s' ->
  km_find k (flows s) = None ->
  exists f, km_find k (flows s') = Some f /\ f_ready f = negb (spec_cr r) /\ f_retries f = 0 /\
            (spec_cr r = false -> f_filled f = negb (N.eqb (spec_ft r) flow_type_inter_node)).
Proof.
  intros H F. destruct (add_or_update_cases _ _ _ _ _ _ H) as (ft & cr & FT & CR & Cases).
  rewrite F in Cases. destruct Cases as [E _]. eexists. split; [rewrite E, km_find_put, N.eqb_refl; reflexivity|].
  rewrite (spec_cr_ok _ _ _ FT CR), (spec_ft_ok _ _ FT). cbn. repeat split. intros ->. reflexivity.
Qed.
