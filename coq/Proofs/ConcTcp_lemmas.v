(* Invariants of the TCP/TLS interleaving model: delivery (exactly once, in order), the clients
   map, the wait-group counter, and progress after Stop. *)
From Coq Require Import List Bool Arith Lia.
From Verif.Model Require Import ConcCollector.
From Verif.Proofs Require Import ConcCollector_lemmas.
Import ListNotations.

Definition impb (a b : bool) : bool := negb a || b.

Definition h_live p := match p with HNone | HDone => false | _ => true end.
Definition h_ge3 p := match p with H3 | H4 | H5 | H6 | HDone => true | _ => false end.
Definition h_ge4 p := match p with H4 | H5 | H6 | HDone => true | _ => false end.
Definition h_ge5 p := match p with H5 | H6 | HDone => true | _ => false end.
Definition h_reg p := match p with H1 | H2 | H3 | H4 | H5 => true | _ => false end.
Definition r_live p := match p with RNone | RDone => false | _ => true end.
Definition r_ge4 p := match p with R4 | RDone => true | _ => false end.
Definition r_exited p := match p with R3 | R4 | RDone => true | _ => false end.

(* per-connection consistency; st = stopChan closed *)
Definition conn_ok (st : bool) (c : conn) : bool :=
  impb (negb (match k_r c with RNone => true | _ => false end)) (h_ge3 (k_h c)) &&
  Bool.eqb (k_done c) (r_ge4 (k_r c)) &&
  Bool.eqb (k_srvclosed c) (h_ge5 (k_h c)) &&
  impb (h_ge4 (k_h c)) (st || k_done c) &&
  impb (match k_exit c with XKill => true | _ => false end) st &&
  impb (negb (match k_h c with HNone => true | _ => false end)) (k_acc c) &&
  Bool.eqb (r_exited (k_r c)) (negb (match k_exit c with XNone => true | _ => false end)) &&
  impb (match k_cli c with CClosed => true | _ => false end) (match k_unsent c with [] => true | _ => false end) &&
  impb (match k_exit c with XEof => true | _ => false end)
       (match k_queue c, k_unsent c with [], [] => true | _, _ => false end) &&
  impb (match k_cli c with CNew => true | _ => false end) (negb (k_acc c)).

Definition glob_ok (s : tstate) : bool :=
  Bool.eqb (t_lis s) (match t_start s with S1 | S2 | S3 | S4 | S5 => true | _ => false end) &&
  Bool.eqb (t_pub s) (match t_start s with S3 | S4 | S5 | SDone => true | _ => false end) &&
  Bool.eqb (match t_acc s with ANone => true | _ => false end)
           (match t_start s with S0 | S1 | S2 | S3 => true | _ => false end) &&
  Bool.eqb (t_stopped s) (match t_stop s with P0 => false | _ => true end) &&
  impb (t_stopped s) (t_pub s) &&
  impb (match t_start s with S5 | SDone => true | _ => false end) (t_stopped s).

Definition acc_cnt (s : tstate) : nat :=
  (match t_start s with S0 | S1 => 0 | _ => match t_acc s with ADone => 0 | _ => 1 end end) +
  (match t_acc s with A2 _ => 1 | _ => 0 end).
Definition conn_cnt (c : conn) : nat :=
  (if h_live (k_h c) then 1 else 0) +
  (match k_h c with H2 => 1 | _ => if r_live (k_r c) then 1 else 0 end).

Definition backlog_ok (s : tstate) : Prop :=
  NoDup (t_backlog s) /\
  forall j, In j (t_backlog s) ->
    exists c, nth_error (t_conns s) j = Some c /\ k_acc c = false /\ k_cli c <> CNew.
Definition acchold_ok (s : tstate) : Prop :=
  match t_acc s with
  | A1 i | A2 i => exists c, nth_error (t_conns s) i = Some c /\ k_h c = HNone /\ k_acc c = true
  | _ => True
  end.
Definition clients_ok (s : tstate) : Prop :=
  forall j, In j (t_clients s) -> exists c, nth_error (t_conns s) j = Some c /\ h_reg (k_h c) = true.

Definition inhand (p : rpc) : list nat := match p with R1 m => [fst m] | _ => [] end.
Definition cont (c : conn) (rest : list msg) : list nat :=
  match k_exit c with XFail => [] | _ => inhand (k_r c) ++ spec (k_tpl c) rest end.
Definition deliv_ok (cfg : list ccfg) (s : tstate) : Prop :=
  forall i c, nth_error (t_conns s) i = Some c ->
    (forall rest, spec false (k_taken c ++ rest) = proj i (t_log s) ++ cont c rest) /\
    (exists cc, nth_error cfg i = Some cc /\ k_taken c ++ k_queue c ++ k_unsent c = number 0 (c_msgs cc)).

Definition r2_cnt (c : conn) : nat := match k_r c with R2 => 1 | _ => 0 end.

Record TInv (cfg : list ccfg) (s : tstate) : Prop := mkTInv {
  i_glob : glob_ok s = true;
  i_conn : forallb (conn_ok (t_stopped s)) (t_conns s) = true;
  i_wg : t_wg s = acc_cnt s + sum (map conn_cnt (t_conns s));
  i_backlog : backlog_ok s;
  i_acchold : acchold_ok s;
  i_clients : clients_ok s;
  i_deliv : deliv_ok cfg s;
  i_numrec : t_numrec s + sum (map r2_cnt (t_conns s)) = length (t_log s) }.

(* ------------------------------------------------------------------------------------------ *)
Lemma proj_app : forall i l j x, proj i (l ++ [(j, x)]) = if Nat.eqb j i then proj i l ++ [x] else proj i l.
Proof.
  intros. unfold proj. rewrite filter_app, map_app. simpl.
  destruct (Nat.eqb j i); simpl; auto. apply app_nil_r.
Qed.

Lemma conn_ok_mono : forall c, conn_ok false c = true -> conn_ok true c = true.
Proof.
  intros c H. unfold conn_ok, impb in *.
  repeat (apply andb_true_iff in H; destruct H as [H ?]).
  repeat (apply andb_true_iff; split); auto.
  - destruct (h_ge4 (k_h c)); simpl in *; auto.
  - destruct (k_exit c); simpl in *; auto.
Qed.

Lemma conn_ok_mono_all : forall l, forallb (conn_ok false) l = true -> forallb (conn_ok true) l = true.
Proof.
  induction l; simpl; intros; auto. apply andb_true_iff in H. destruct H.
  apply andb_true_iff; split; auto using conn_ok_mono.
Qed.

Lemma init_conn_ok : forall cfg, forallb (conn_ok false) (map conn_init cfg) = true.
Proof. induction cfg; simpl; auto. Qed.

Lemma sum_map_zero : forall A (f : A -> nat) l, (forall x, In x l -> f x = 0) -> sum (map f l) = 0.
Proof. induction l; simpl; intros; auto. rewrite H, IHl; auto. Qed.

Lemma nth_error_map_init : forall cfg i c, nth_error (map conn_init cfg) i = Some c ->
  exists cc, nth_error cfg i = Some cc /\ c = conn_init cc.
Proof.
  induction cfg; destruct i; simpl; intros; try discriminate.
  - inversion H; eauto.
  - eauto.
Qed.

Lemma t_init_inv : forall cfg, TInv cfg (t_init cfg).
Proof.
  intros. constructor; simpl; auto.
  - apply init_conn_ok.
  - rewrite sum_map_zero; auto. intros x Hx. apply in_map_iff in Hx. destruct Hx as [? [<- _]]. reflexivity.
  - split; [constructor | intros ? []].
  - exact I.
  - intros ? [].
  - intros i c H. apply nth_error_map_init in H. destruct H as [cc [H1 ->]]. split.
    + intros. reflexivity.
    + exists cc. split; auto.
  - rewrite sum_map_zero; auto. intros x Hx. apply in_map_iff in Hx. destruct Hx as [? [<- _]]. reflexivity.
Qed.

(* ------------------------------------------------------------------------------------------ *)
Ltac destruct_flags :=
  repeat match goal with
         | x : spc |- _ => destruct x
         | x : apc |- _ => destruct x
         | x : ppc |- _ => destruct x
         | x : bool |- _ => destruct x
         end.

Lemma glob_ok_step : forall dr s t s', glob_ok s = true -> t_step dr s t = Some s' -> glob_ok s' = true.
Proof.
  intros dr s t s' G H. destruct s. unfold t_step in H. simpl in H.
  destruct t; step_cases H; unfold glob_ok in *; simpl in *; try assumption;
    destruct_flags; simpl in *; try discriminate; auto.
Qed.

Lemma stopped_mono : forall dr s t s', t_step dr s t = Some s' -> t_stopped s = true -> t_stopped s' = true.
Proof.
  intros dr s t s' H. destruct s. unfold t_step in H. simpl in H.
  destruct t; step_cases H; simpl; auto.
Qed.

Ltac split_ok H :=
  unfold conn_ok, impb in H;
  repeat (apply andb_true_iff in H; let H' := fresh "K" in destruct H as [H H']).

Ltac fin_goal :=
  repeat match goal with
         | |- context [?x] => is_var x;
             match type of x with
             | hpc => destruct x | rpc => destruct x | exitr => destruct x | cpc => destruct x
             | bool => destruct x
             end
         end; simpl in *; try discriminate; auto.
Ltac fin_all :=
  repeat match goal with
         | x : hpc |- _ => destruct x | x : rpc |- _ => destruct x | x : exitr |- _ => destruct x
         | x : cpc |- _ => destruct x | x : bool |- _ => destruct x
         end; simpl in *; try discriminate; auto.

Lemma conn_ok_step : forall dr s t s',
  glob_ok s = true -> forallb (conn_ok (t_stopped s)) (t_conns s) = true ->
  backlog_ok s -> acchold_ok s ->
  t_step dr s t = Some s' -> forallb (conn_ok (t_stopped s')) (t_conns s') = true.
Proof.
  intros dr s t s' G C B A H. destruct s. unfold t_step in H. simpl in H. simpl in C.
  unfold backlog_ok, acchold_ok in *; simpl in *.
  destruct t; step_cases H; simpl; try assumption;
    try (match goal with |- forallb (conn_ok true) _ = true => idtac end;
         match goal with x : bool |- _ => destruct x; auto using conn_ok_mono_all end; fail);
    (apply forallb_upd; [assumption|]);
    try (destruct B as [_ B]; specialize (B _ (or_introl eq_refl)); destruct B as [c0 [B1 [B2 B3]]];
         rewrite B1 in *; match goal with Hq : Some _ = Some _ |- _ => inversion Hq; subst; clear Hq end);
    try (destruct A as [c0 [A1 [A2 A3]]];
         rewrite A1 in *; match goal with Hq : Some _ = Some _ |- _ => inversion Hq; subst; clear Hq end);
    match goal with Hn : nth_error _ _ = Some ?c |- _ =>
      pose proof (forallb_nth _ _ _ _ _ C Hn) as K; split_ok K; unfold conn_ok, impb; destruct c end;
    simpl in *; subst; simpl in *;
    repeat (apply andb_true_iff; split); simpl; auto; fin_goal; try solve [fin_all].
  destruct k_queue; discriminate.
Qed.

