(* C18 - lemmas about Model/Tls.v.
   Section Contract: the handshake H is a section variable; the documented contract of crypto/tls
   and pion/dtls v2.2.12 is stated as section hypotheses.  After the section every lemma is
   universally quantified over H and the contract: no axiom.  Then: the reference handshake meets
   the contract (so the hypotheses are satisfiable and the driver's predictions are an instance),
   and the regenerated syntax table Gen/TlsCfg.v agrees with the model. *)
From Coq Require Import List Bool Arith NArith ZArith String Lia.
From Verif.Base Require Import Str.
From Verif.Gen Require Import TlsCfg.
From Verif.Model Require Import Tls.
Import ListNotations.
Local Open Scope string_scope.
Local Open Scope bool_scope.

(* ---------------------------------------------------------------- the contract, as Props *)

(* crypto/tls client (Config with RootCAs, ServerName, MinVersion, Certificates and nothing else,
   in particular InsecureSkipVerify false and no verification callbacks): Dial returns a
   connection only after a complete handshake with a TLS server whose leaf certificate chains to
   RootCAs, is valid now and matches ServerName (or, when that is empty, the dialled host), at a
   version within [MinVersion, what the peer speaks]. *)
Definition tls_dial_contract (now : Z) (H : handshake) : Prop :=
  forall cfg host srv v, tls_dial H cfg host srv = Some v ->
    ep_kind srv = KTls /\ (tc_min_version cfg <= v)%N /\ (v <= ep_max srv)%N /\
    exists sc, peer_cert srv = Some sc /\ valid_at now sc = true /\
               name_matches (tls_expected_name (tc_server_name cfg) host) sc = true /\
               (forall p, tc_root_cas cfg = Some p -> chains_to p sc = true).

(* crypto/tls server: application data of a peer is readable only after a complete handshake with
   a TLS client at a version >= MinVersion; with ClientAuth = RequireAndVerifyClientCert the
   handshake completes only if the client presented a certificate that is valid now and chains
   to ClientCAs. *)
Definition tls_serve_contract (now : Z) (H : handshake) : Prop :=
  forall cfg cl v, tls_serve H cfg cl = Some v ->
    ep_kind cl = KTls /\ (tc_min_version cfg <= v)%N /\ (v <= ep_max cl)%N /\
    (tc_client_auth cfg = c_tls_RequireAndVerifyClientCert ->
       exists cc, peer_cert cl = Some cc /\ valid_at now cc = true /\
                  (forall p, tc_client_cas cfg = Some p -> chains_to p cc = true)).

(* pion/dtls v2.2.12 client (flight5handler.go, crypto.go verifyServerCert, conn.go:163-168):
   x509 verification against RootCAs at time.Now() always; DNSName = ServerName unless that
   parses as an IP address, in which case (as for the empty string) no name is checked. *)
Definition dtls_dial_contract (now : Z) (H : handshake) : Prop :=
  forall cfg srv, dtls_dial H cfg srv = true ->
    ep_kind srv = KDtls /\
    exists sc, peer_cert srv = Some sc /\ valid_at now sc = true /\
               (forall p, dc_root_cas cfg = Some p -> chains_to p sc = true) /\
               (dtls_expected_name (is_ip H) (dc_server_name cfg) <> "" ->
                name_matches (dtls_expected_name (is_ip H) (dc_server_name cfg)) sc = true).

(* pion/dtls server: only a peer that completed a DTLS handshake gets its datagrams through *)
Definition dtls_serve_contract (H : handshake) : Prop :=
  forall cfg cl, dtls_serve H cfg cl = true -> ep_kind cl = KDtls.

Definition handshake_contract (now : Z) (H : handshake) : Prop :=
  tls_dial_contract now H /\ tls_serve_contract now H /\ dtls_dial_contract now H /\ dtls_serve_contract H.

Lemma ekind_eqb_eq : forall a b, ekind_eqb a b = true <-> a = b.
Proof. destruct a, b; simpl; split; intro E; try reflexivity; try discriminate. Qed.

Lemma nonempty_pem : forall (p : pem), match p with [] => False | _ => True end -> p <> [].
Proof. destruct p; simpl; intros; congruence. Qed.

Lemma valid_at_iff : forall now c, valid_at now c = true <-> (c_nb c <= now <= c_na c)%Z.
Proof.
  intros now c. unfold valid_at. rewrite andb_true_iff, !Z.leb_le. tauto.
Qed.

Section Contract.
  Variable now : Z.
  Variable H : handshake.
  Hypothesis Htd : tls_dial_contract now H.
  Hypothesis Hts : tls_serve_contract now H.
  Hypothesis Hdd : dtls_dial_contract now H.
  Hypothesis Hds : dtls_serve_contract H.

  (* -- the configurations themselves (no contract needed, kept here for the statement order) *)
  Lemma client_config_fields : forall t cfg, create_client_config t = ROk cfg ->
    tc_root_cas cfg = Some (pool_of (et_ca t)) /\ tc_server_name cfg = et_server_name t /\
    tc_min_version cfg = c_tls_VersionTLS12 /\
    (et_cert t = None -> tc_certificates cfg = []) /\
    (et_cert t <> None -> exists c, tc_certificates cfg = [c]).
  Proof.
    intros t cfg. unfold create_client_config.
    destruct (et_ca t) eqn:Eca; [discriminate|].
    destruct (et_cert t) as [cs|] eqn:Ec.
    - destruct (x509_key_pair cs (et_key t)); [|discriminate].
      intro E; inversion E; subst; simpl. repeat split; try congruence. intros _. eexists; reflexivity.
    - intro E; inversion E; subst; simpl. repeat split; congruence.
  Qed.

  Lemma server_config_fields : forall c cfg, create_server_config c = ROk cfg ->
    tc_min_version cfg = c_tls_VersionTLS12 /\ (exists k, tc_certificates cfg = [k]) /\
    (forall p, ci_ca c = Some p ->
       tc_client_auth cfg = c_tls_RequireAndVerifyClientCert /\ tc_client_cas cfg = Some (pool_of p)).
  Proof.
    intros c cfg. unfold create_server_config.
    destruct (x509_key_pair (ci_cert c) (ci_key c)); [|discriminate].
    destruct (ci_ca c) as [[|x p]|]; try discriminate.
    - intro E; inversion E; subst; simpl. split; [reflexivity|]. split; [eexists; reflexivity|].
      intros p' E'; inversion E'; subst; auto.
    - intro E; inversion E; subst; simpl. split; [reflexivity|]. split; [eexists; reflexivity|].
      intros; discriminate.
  Qed.

  (* -- TLS exporter *)
  Lemma exporter_tls_authenticates : forall i t srv c,
    ei_tls i = Some t -> ei_proto i = "tcp" -> init_exporting_process H i srv = ROk c ->
    exists v sc, c = ConnTLS v /\ (c_tls_VersionTLS12 <= v)%N /\ (v <= ep_max srv)%N /\ ep_kind srv = KTls /\
      peer_cert srv = Some sc /\ chains_to (pool_of (et_ca t)) sc = true /\ valid_at now sc = true /\
      name_matches (tls_expected_name (et_server_name t) (ei_host i)) sc = true.
  Proof.
    intros i t srv c Et Ep. unfold init_exporting_process. rewrite Et, Ep. simpl.
    destruct (create_client_config t) as [cfg|] eqn:Ecfg; [|discriminate].
    destruct (tls_dial H cfg (ei_host i) srv) as [v|] eqn:Ed; [|discriminate].
    intro E; inversion E; subst.
    destruct (client_config_fields _ _ Ecfg) as (Hr & Hn & Hm & _).
    destruct (Htd _ _ _ _ Ed) as (Hk & Hmin & Hmax & sc & Hpc & Hv & Hnm & Hch).
    exists v, sc. rewrite Hm in Hmin. rewrite Hn in Hnm. repeat split; auto.
  Qed.

  (* -- DTLS exporter *)
  Lemma exporter_dtls_verifies : forall i t srv c,
    ei_tls i = Some t -> ei_proto i = "udp" -> init_exporting_process H i srv = ROk c ->
    c = ConnDTLS /\ ep_kind srv = KDtls /\
    exists sc, peer_cert srv = Some sc /\ chains_to (pool_of (et_ca t)) sc = true /\ valid_at now sc = true /\
      (et_server_name t <> "" -> is_ip H (et_server_name t) = false -> name_matches (et_server_name t) sc = true).
  Proof.
    intros i t srv c Et Ep. unfold init_exporting_process. rewrite Et, Ep. simpl.
    unfold dtls_client_config. destruct (et_ca t) eqn:Eca; [discriminate|].
    match goal with |- context [dtls_dial H ?cfg srv] => destruct (dtls_dial H cfg srv) eqn:Ed end; [|discriminate].
    intro E; inversion E; subst.
    destruct (Hdd _ _ Ed) as (Hk & sc & Hpc & Hv & Hch & Hnm). simpl in *.
    repeat split; auto. exists sc. repeat split; auto.
    intros Hne Hip. unfold dtls_expected_name in Hnm. rewrite Hip in Hnm. auto.
  Qed.

  (* -- the transport decision is what the connection is; security settings => never plaintext *)
  Lemma exporter_conn_decision : forall i srv c,
    init_exporting_process H i srv = ROk c ->
    conn_transport c = exporter_transport (match ei_tls i with Some _ => true | None => false end) (ei_proto i).
  Proof.
    intros i srv c. unfold init_exporting_process, exporter_transport.
    destruct (ei_tls i) as [t|].
    - destruct (ei_proto i =? "tcp").
      + destruct (create_client_config t); [|discriminate].
        destruct (tls_dial H a (ei_host i) srv); [|discriminate]. intro E; inversion E; reflexivity.
      + destruct (ei_proto i =? "udp").
        * destruct (dtls_client_config t); [|discriminate].
          destruct (dtls_dial H a srv); [|discriminate]. intro E; inversion E; reflexivity.
        * intro E; inversion E; reflexivity.
    - destruct (plain_dial H (ei_proto i) srv); [|discriminate]. intro E; inversion E; reflexivity.
  Qed.

  Lemma exporter_never_plain : forall i srv c,
    ei_tls i <> None -> init_exporting_process H i srv = ROk c ->
    (exists v, c = ConnTLS v /\ ep_kind srv = KTls) \/ (c = ConnDTLS /\ ep_kind srv = KDtls) \/ c = ConnNil.
  Proof.
    intros i srv c Ht Hi. destruct (ei_tls i) as [t|] eqn:Et; [|congruence].
    destruct (ei_proto i =? "tcp") eqn:E1.
    - apply String.eqb_eq in E1.
      destruct (exporter_tls_authenticates _ _ _ _ Et E1 Hi) as (v & sc & Hc & _ & _ & Hk & _). left; eauto.
    - destruct (ei_proto i =? "udp") eqn:E2.
      + apply String.eqb_eq in E2.
        destruct (exporter_dtls_verifies _ _ _ _ Et E2 Hi) as (Hc & Hk & _). right; left; auto.
      + unfold init_exporting_process in Hi. rewrite Et, E1, E2 in Hi. inversion Hi. right; right; reflexivity.
  Qed.

  (* -- collector *)
  Lemma collector_tls_session : forall c cl k,
    ci_enc c = true -> ci_proto c = "tcp" -> collector_session H c cl = Some k ->
    exists v, k = ConnTLS v /\ (c_tls_VersionTLS12 <= v)%N /\ (v <= ep_max cl)%N /\ ep_kind cl = KTls /\
      (forall p, ci_ca c = Some p ->
         exists cc, peer_cert cl = Some cc /\ chains_to (pool_of p) cc = true /\ valid_at now cc = true).
  Proof.
    intros c cl k He Hp. unfold collector_session. rewrite Hp, He. simpl.
    destruct (create_server_config c) as [cfg|] eqn:Ecfg; [|discriminate].
    destruct (tls_serve H cfg cl) as [v|] eqn:Es; [|discriminate].
    simpl. intro E; inversion E; subst.
    destruct (server_config_fields _ _ Ecfg) as (Hm & _ & Hca).
    destruct (Hts _ _ _ Es) as (Hk & Hmin & Hmax & Hauth).
    exists v. rewrite Hm in Hmin. repeat split; auto.
    intros p Hp'. destruct (Hca _ Hp') as (Ha & Hc).
    destruct (Hauth Ha) as (cc & Hpc & Hv & Hch). exists cc. repeat split; auto.
  Qed.

  Lemma collector_client_ca : forall c p cl k,
    ci_enc c = true -> ci_proto c = "tcp" -> ci_ca c = Some p -> collector_session H c cl = Some k ->
    exists v cc, k = ConnTLS v /\ (c_tls_VersionTLS12 <= v)%N /\ ep_kind cl = KTls /\
      peer_cert cl = Some cc /\ chains_to (pool_of p) cc = true /\ valid_at now cc = true.
  Proof.
    intros c p cl k He Hp Hca Hs.
    destruct (collector_tls_session _ _ _ He Hp Hs) as (v & Hk & Hv & _ & Hkind & Hcc).
    destruct (Hcc _ Hca) as (cc & H1 & H2 & H3). exists v, cc. repeat split; auto.
  Qed.

  Lemma collector_never_plain : forall c cl k,
    ci_enc c = true -> collector_session H c cl = Some k ->
    (exists v, k = ConnTLS v /\ (c_tls_VersionTLS12 <= v)%N /\ ep_kind cl = KTls) \/ (k = ConnDTLS /\ ep_kind cl = KDtls).
  Proof.
    intros c cl k He Hs. destruct (ci_proto c =? "tcp") eqn:E1.
    - apply String.eqb_eq in E1.
      destruct (collector_tls_session _ _ _ He E1 Hs) as (v & Hk & Hv & _ & Hkind & _). left; eauto.
    - unfold collector_session in Hs. rewrite E1, He in Hs.
      destruct (ci_proto c =? "udp"); [|discriminate].
      destruct (dtls_server_config c) as [cfg|]; [|discriminate].
      destruct (dtls_serve H cfg cl) eqn:Es; [|discriminate].
      inversion Hs. right. split; auto. eapply Hds; eauto.
  Qed.

  (* -- the executable oracles hold on every observation the model can produce *)
  Lemma exporter_ok_holds : forall i srv,
    exporter_ok now (is_ip H) i srv (init_exporting_process H i srv) = true.
  Proof.
    intros i srv. unfold exporter_ok.
    destruct (init_exporting_process H i srv) as [c|] eqn:Hi; [|reflexivity].
    destruct (ei_tls i) as [t|] eqn:Et; [|reflexivity].
    assert (Hnp : ei_tls i <> None) by congruence.
    destruct (ei_proto i =? "tcp") eqn:E1.
    - apply String.eqb_eq in E1.
      destruct (exporter_tls_authenticates _ _ _ _ Et E1 Hi) as (v & sc & Hc & Hv & _ & Hk & Hpc & Hch & Hva & Hnm).
      subst c. rewrite Hk, Hpc, Hch, Hva, Hnm. simpl. apply N.leb_le in Hv. rewrite Hv. reflexivity.
    - destruct (ei_proto i =? "udp") eqn:E2.
      + apply String.eqb_eq in E2.
        destruct (exporter_dtls_verifies _ _ _ _ Et E2 Hi) as (Hc & Hk & sc & Hpc & Hch & Hva & Hnm).
        subst c. rewrite Hk, Hpc, Hch, Hva. simpl.
        destruct (et_server_name t =? "") eqn:En; [reflexivity|]. simpl.
        destruct (is_ip H (et_server_name t)) eqn:Eip; [reflexivity|].
        apply Hnm; auto. intro E0. rewrite E0 in En. discriminate.
      + unfold init_exporting_process in Hi. rewrite Et, E1, E2 in Hi. inversion Hi. reflexivity.
  Qed.

  Lemma collector_ok_holds : forall c cl,
    collector_ok now c cl (collector_session H c cl) = true.
  Proof.
    intros c cl. unfold collector_ok.
    destruct (collector_session H c cl) as [k|] eqn:Hs; [|reflexivity].
    destruct (ci_enc c) eqn:He; [|reflexivity].
    destruct (ci_proto c =? "tcp") eqn:E1.
    - apply String.eqb_eq in E1.
      destruct (collector_tls_session _ _ _ He E1 Hs) as (v & Hk & Hv & _ & Hkind & Hcc).
      subst k. rewrite Hkind. simpl. apply N.leb_le in Hv. rewrite Hv. simpl.
      destruct (ci_ca c) as [p|]; [|reflexivity].
      destruct (Hcc p eq_refl) as (cc & H1 & H2 & H3). rewrite H1, H2, H3. reflexivity.
    - destruct (collector_never_plain _ _ _ He Hs) as [(v & Hk & Hv & Hkind)|(Hk & Hkind)].
      + exfalso. unfold collector_session in Hs. rewrite E1, He in Hs.
        destruct (ci_proto c =? "udp"); [|discriminate].
        destruct (dtls_server_config c) as [cfg|]; [|discriminate].
        destruct (dtls_serve H cfg cl); [|discriminate]. subst k. discriminate.
      + subst k. rewrite Hkind. reflexivity.
  Qed.

  (* -- "within its validity period" is exact: a certificate that misses `now` by any amount, on
     either side, is refused - by the TLS exporter, the DTLS exporter and the TLS collector that
     authenticates clients *)
  Lemma exporter_refuses_outside_validity : forall i t srv sc,
    ei_tls i = Some t -> ei_proto i = "tcp" \/ ei_proto i = "udp" ->
    peer_cert srv = Some sc -> (now < c_nb sc \/ c_na sc < now)%Z ->
    forall c, init_exporting_process H i srv <> ROk c.
  Proof.
    intros i t srv sc Et Ep Hpc Hout c Hi.
    assert (Hv : valid_at now sc = true).
    { destruct Ep as [Ep|Ep].
      - destruct (exporter_tls_authenticates _ _ _ _ Et Ep Hi) as (v & sc' & _ & _ & _ & _ & Hpc' & _ & Hva & _).
        congruence.
      - destruct (exporter_dtls_verifies _ _ _ _ Et Ep Hi) as (_ & _ & sc' & Hpc' & _ & Hva & _). congruence. }
    apply valid_at_iff in Hv. lia.
  Qed.

  Lemma collector_refuses_outside_validity : forall c p cl cc,
    ci_enc c = true -> ci_proto c = "tcp" -> ci_ca c = Some p ->
    peer_cert cl = Some cc -> (now < c_nb cc \/ c_na cc < now)%Z ->
    collector_session H c cl = None.
  Proof.
    intros c p cl cc He Hp Hca Hpc Hout.
    destruct (collector_session H c cl) as [k|] eqn:Hs; [|reflexivity]. exfalso.
    destruct (collector_client_ca _ _ _ _ He Hp Hca Hs) as (v & cc' & _ & _ & _ & Hpc' & _ & Hva).
    assert (cc' = cc) by congruence. subst cc'. apply valid_at_iff in Hva. lia.
  Qed.
End Contract.

(* ---------------------------------------------------------------- a collector that cannot listen
   serves nobody; client-CA material from which no certificate parses is such a case (whatever
   the handshake: no contract needed) *)
Lemma collector_session_listens : forall H c cl k,
  collector_session H c cl = Some k -> collector_listens c = true.
Proof.
  intros H c cl k. unfold collector_session, collector_listens.
  destruct (ci_proto c =? "tcp").
  - destruct (ci_enc c); [|reflexivity]. destruct (create_server_config c); [reflexivity|discriminate].
  - destruct (ci_proto c =? "udp"); [|discriminate].
    destruct (ci_enc c); [|reflexivity]. destruct (dtls_server_config c); [reflexivity|discriminate].
Qed.

Lemma collector_unusable_ca_refuses : forall c p,
  ci_enc c = true -> ci_proto c = "tcp" -> ci_ca c = Some p -> pool_of p = [] ->
  collector_listens c = false /\ forall H cl, collector_session H c cl = None.
Proof.
  intros c p He Hp Hca Hpool.
  assert (p = []) as -> by (destruct p; [reflexivity|discriminate]).
  assert (Hcfg : exists e, create_server_config c = RErr e).
  { unfold create_server_config. destruct (x509_key_pair (ci_cert c) (ci_key c)); [|eexists; reflexivity].
    rewrite Hca. eexists; reflexivity. }
  destruct Hcfg as (e & Hcfg).
  assert (Hl : collector_listens c = false).
  { unfold collector_listens. rewrite Hp, He, Hcfg. reflexivity. }
  split; [exact Hl|]. intros H cl.
  destruct (collector_session H c cl) as [k|] eqn:Hs; [|reflexivity].
  apply collector_session_listens in Hs. congruence.
Qed.

(* decisions: pure *)
Lemma exporter_decision_never_plain : forall proto, exporter_transport true proto <> TPlain.
Proof. intro p. unfold exporter_transport. destruct (p =? "tcp"); [discriminate|]. destruct (p =? "udp"); discriminate. Qed.

Lemma exporter_decision_plain_iff : forall b proto, exporter_transport b proto = TPlain <-> b = false.
Proof.
  intros b p. unfold exporter_transport. destruct b; split; intro E; try reflexivity; try discriminate.
  destruct (p =? "tcp"); [discriminate|]. destruct (p =? "udp"); discriminate.
Qed.

Lemma collector_decision_never_plain : forall proto, collector_transport true proto <> TPlain.
Proof. intro p. unfold collector_transport. destruct (p =? "tcp"); [discriminate|]. destruct (p =? "udp"); discriminate. Qed.

(* ---------------------------------------------------------------- the reference handshake meets the contract *)
Lemma neg_version_bounds : forall cmin cmax smin smax v,
  neg_version cmin cmax smin smax = Some v ->
  (cmin <= v /\ smin <= v /\ v <= cmax /\ v <= smax)%N.
Proof.
  intros cmin cmax smin smax v. unfold neg_version.
  destruct ((cmin <=? N.min cmax smax)%N) eqn:E1; simpl; [|discriminate].
  destruct ((smin <=? N.min cmax smax)%N) eqn:E2; [|discriminate].
  intro E; inversion E; subst. apply N.leb_le in E1. apply N.leb_le in E2.
  repeat split; auto; [apply N.le_min_l | apply N.le_min_r].
Qed.

Lemma verifies_spec : forall now roots name sc,
  verifies now roots name sc = true ->
  exists c, sc = Some c /\ chains_to roots c = true /\ valid_at now c = true /\
            (name <> "" -> name_matches name c = true).
Proof.
  intros now roots name [c|]; simpl; [|discriminate].
  intro E. apply andb_prop in E. destruct E as (E & En). apply andb_prop in E. destruct E as (Ec & Ev).
  exists c. repeat split; auto. intro Hne. destruct (name =? "") eqn:E0; auto.
  apply String.eqb_eq in E0. contradiction.
Qed.

Lemma server_accepts_spec : forall now cas cc,
  server_accepts_client now c_tls_RequireAndVerifyClientCert cas cc = true ->
  exists c, cc = Some c /\ valid_at now c = true /\ (forall p, cas = Some p -> chains_to p c = true).
Proof.
  intros now cas cc. unfold server_accepts_client. rewrite N.eqb_refl.
  destruct cc as [c|]; [|discriminate]. destruct cas as [p|]; [|discriminate].
  intro E. apply andb_prop in E. destruct E. exists c. repeat split; auto. intros p' E'; inversion E'; subst; auto.
Qed.

Lemma ref_tls_client : forall cacc sacc cmin cmax smin smax v,
  fst (ref_tls cacc sacc cmin cmax smin smax) = Some v ->
  cacc = true /\ (cmin <= v /\ smin <= v /\ v <= cmax /\ v <= smax)%N.
Proof.
  intros cacc sacc cmin cmax smin smax v. unfold ref_tls.
  destruct (neg_version cmin cmax smin smax) as [w|] eqn:En; simpl; [|discriminate].
  destruct cacc; simpl; [|discriminate].
  destruct (sacc || (c_tls_VersionTLS13 <=? w)%N); [|discriminate].
  intro E; inversion E; subst. split; auto. eapply neg_version_bounds; eauto.
Qed.

Lemma ref_tls_server : forall cacc sacc cmin cmax smin smax v,
  snd (ref_tls cacc sacc cmin cmax smin smax) = Some v ->
  cacc = true /\ sacc = true /\ (cmin <= v /\ smin <= v /\ v <= cmax /\ v <= smax)%N.
Proof.
  intros cacc sacc cmin cmax smin smax v. unfold ref_tls.
  destruct (neg_version cmin cmax smin smax) as [w|] eqn:En; simpl; [|discriminate].
  destruct cacc; simpl; [|discriminate]. destruct sacc; [|discriminate].
  intro E; inversion E; subst. destruct (neg_version_bounds _ _ _ _ _ En) as (A & B & C & D).
  repeat split; auto.
Qed.

Lemma tls_expected_name_nonempty_or : forall sn host,
  tls_expected_name sn host = "" -> sn = "" /\ host = "".
Proof.
  intros sn host. unfold tls_expected_name. destruct (sn =? "") eqn:E.
  - apply String.eqb_eq in E. auto.
  - intro E'. subst. discriminate.
Qed.

Lemma ref_meets_contract : forall now, handshake_contract now (ref_handshake now).
Proof.
  intro now. unfold handshake_contract. split; [|split; [|split]].
  - (* tls_dial *)
    intros cfg host srv v. simpl.
    destruct (tls_expected_name (tc_server_name cfg) host =? "") eqn:En; [discriminate|].
    destruct (ekind_eqb (ep_kind srv) KTls) eqn:Ek; [|discriminate].
    intro E. apply ref_tls_client in E. destruct E as (Ecacc & Hb). destruct Hb as (H1 & H2 & H3 & H4).
    apply ekind_eqb_eq in Ek.
    apply verifies_spec in Ecacc. destruct Ecacc as (c & Hc & Hch & Hv & Hn).
    repeat split; auto.
    exists c. repeat split; auto.
    + apply Hn. intro E0. rewrite E0 in En. discriminate.
    + intros p Hp. rewrite Hp in Hch. exact Hch.
  - (* tls_serve *)
    intros cfg cl v. simpl.
    destruct (ekind_eqb (ep_kind cl) KTls) eqn:Ek; [|discriminate].
    intro E. apply ref_tls_server in E. destruct E as (_ & Esacc & Hb). destruct Hb as (H1 & H2 & H3 & H4).
    apply ekind_eqb_eq in Ek. repeat split; auto.
    intro Ha. rewrite Ha in Esacc. apply server_accepts_spec in Esacc.
    destruct Esacc as (c & Hc & Hv & Hch). exists c. repeat split; auto.
  - (* dtls_dial *)
    intros cfg srv. simpl. intro E.
    apply andb_prop in E. destruct E as (E & _). apply andb_prop in E. destruct E as (E & Ever).
    apply andb_prop in E. destruct E as (Ek & _). apply ekind_eqb_eq in Ek. split; auto.
    apply verifies_spec in Ever. destruct Ever as (c & Hc & Hch & Hv & Hn).
    exists c. repeat split; auto. intros p Hp. rewrite Hp in Hch. exact Hch.
  - (* dtls_serve *)
    intros cfg cl. simpl. intro E.
    apply andb_prop in E. destruct E as (E & _). apply andb_prop in E. destruct E as (E & _).
    apply andb_prop in E. destruct E as (Ek & _). apply ekind_eqb_eq in Ek. exact Ek.
Qed.

(* ---------------------------------------------------------------- regenerated syntax vs model
   Every tls.Config / dtls.Config composite literal of pkg/exporter and pkg/collector sets exactly
   the fields the model's records carry, with the constants the theorems rely on; a config field
   assigned after the literal is admitted only where `assignment_ok` says so (optional fields of
   a crypto/tls config, with the same constants). *)
Definition fld (fs : list (string * string)) (k : string) : option string :=
  option_map snd (find (fun kv => fst kv =? k) fs).
Definition has (fs : list (string * string)) (k : string) : bool :=
  match fld fs k with Some _ => true | None => false end.
Definition is_const (fs : list (string * string)) (k : string) (n : N) : bool :=
  match fld fs k with Some v => v =? ("const " ++ show_N n) | None => false end.
Definition is_expr (fs : list (string * string)) (k : string) : bool :=
  match fld fs k with Some v => v =? "expr" | None => false end.
Definition only (fs : list (string * string)) (allowed : list string) : bool :=
  forallb (fun kv => existsb (String.eqb (fst kv)) allowed) fs.

Definition literal_ok (l : string * string * list (string * string)) : bool :=
  let '(pkg, typ, fs) := l in
  if (pkg =? "exporter") && (typ =? "tls.Config") then
    only fs ["Certificates"; "MinVersion"; "RootCAs"; "ServerName"] &&
    is_expr fs "RootCAs" && is_expr fs "ServerName" && is_const fs "MinVersion" c_tls_VersionTLS12 &&
    (negb (has fs "Certificates") || is_expr fs "Certificates")
  else if (pkg =? "collector") && (typ =? "tls.Config") then
    only fs ["Certificates"; "ClientAuth"; "ClientCAs"; "MinVersion"] &&
    is_expr fs "Certificates" && is_const fs "MinVersion" c_tls_VersionTLS12 &&
    Bool.eqb (has fs "ClientAuth") (is_expr fs "ClientCAs") && Bool.eqb (has fs "ClientAuth") (has fs "ClientCAs") &&
    (negb (has fs "ClientAuth") || is_const fs "ClientAuth" c_tls_RequireAndVerifyClientCert)
  else if (pkg =? "exporter") && (typ =? "dtls.Config") then
    only fs ["ExtendedMasterSecret"; "RootCAs"; "ServerName"] &&
    is_expr fs "RootCAs" && is_expr fs "ServerName" && is_const fs "ExtendedMasterSecret" c_dtls_RequireExtendedMasterSecret
  else if (pkg =? "collector") && (typ =? "dtls.Config") then
    only fs ["Certificates"; "ClientCAs"; "ExtendedMasterSecret"] &&
    is_expr fs "Certificates" && is_expr fs "ClientCAs" && is_const fs "ExtendedMasterSecret" c_dtls_RequireExtendedMasterSecret
  else false.

Definition class_present (pkg typ : string) : bool :=
  existsb (fun l => let '(p, t, _) := l in (p =? pkg) && (t =? typ)) tlscfg_literals.

(* A field assigned after the literal (`config.ClientAuth = ...`): admitted only for the two
   crypto/tls configs - whose every non-zero field is also dumped from the real value on every
   run - only for the optional fields of the model's record (the client certificate; client
   authentication), and only with the constant the theorems rely on.  Any other assignment
   (InsecureSkipVerify, MinVersion, a callback, ..., or any field of a dtls.Config) fails. *)
Definition assignment_ok (a : string * string * list (string * string)) : bool :=
  let '(pkg, typ, fs) := a in
  if (pkg =? "collector") && (typ =? "tls.Config") then
    only fs ["ClientAuth"; "ClientCAs"] &&
    (negb (has fs "ClientAuth") || is_const fs "ClientAuth" c_tls_RequireAndVerifyClientCert) &&
    (negb (has fs "ClientCAs") || is_expr fs "ClientCAs")
  else if (pkg =? "exporter") && (typ =? "tls.Config") then
    only fs ["Certificates"] && is_expr fs "Certificates"
  else false.

Definition collector_assigns (k : string) : bool :=
  existsb (fun a => let '(p, t, fs) := a in (p =? "collector") && (t =? "tls.Config") && has fs k) tlscfg_assignments.

Definition tlscfg_ok : bool :=
  forallb literal_ok tlscfg_literals &&
  forallb assignment_ok tlscfg_assignments &&
  class_present "exporter" "tls.Config" && class_present "collector" "tls.Config" &&
  class_present "exporter" "dtls.Config" && class_present "collector" "dtls.Config" &&
  (* client authentication is configured somewhere: ClientAuth together with ClientCAs *)
  Bool.eqb (collector_assigns "ClientAuth") (collector_assigns "ClientCAs") &&
  (existsb (fun l => let '(p, t, fs) := l in (p =? "collector") && (t =? "tls.Config") && has fs "ClientAuth") tlscfg_literals
   || collector_assigns "ClientAuth").

Lemma tlscfg_literals_ok : tlscfg_ok = true.
Proof. vm_compute. reflexivity. Qed.

(* the numbers the literal check spells out are the library's constants *)
Lemma tlscfg_numbers : (c_tls_VersionTLS12 = 771 /\ c_tls_RequireAndVerifyClientCert = 4 /\
                        c_dtls_RequireExtendedMasterSecret = 1 /\ c_tls_VersionTLS13 = 772 /\
                        c_tls_VersionTLS11 = 770 /\ c_dtls_NoClientCert = 0 /\ c_tls_NoClientCert = 0)%N.
Proof. repeat split; reflexivity. Qed.

(* ---------------------------------------------------------------- closed statements
   (the section is closed: every statement is quantified over the handshake and its contract) *)
Lemma C18_exporter_tls_lemma : forall now H, handshake_contract now H ->
  forall i t srv c,
    ei_tls i = Some t -> ei_proto i = "tcp" -> init_exporting_process H i srv = ROk c ->
    exists v sc, c = ConnTLS v /\ (c_tls_VersionTLS12 <= v)%N /\ (v <= ep_max srv)%N /\ ep_kind srv = KTls /\
      peer_cert srv = Some sc /\ chains_to (pool_of (et_ca t)) sc = true /\ valid_at now sc = true /\
      name_matches (tls_expected_name (et_server_name t) (ei_host i)) sc = true.
Proof. intros now H (A & B & C & D). apply exporter_tls_authenticates; assumption. Qed.

Lemma C18_collector_client_ca_lemma : forall now H, handshake_contract now H ->
  forall c p cl k,
    ci_enc c = true -> ci_proto c = "tcp" -> ci_ca c = Some p -> collector_session H c cl = Some k ->
    exists v cc, k = ConnTLS v /\ (c_tls_VersionTLS12 <= v)%N /\ ep_kind cl = KTls /\
      peer_cert cl = Some cc /\ chains_to (pool_of p) cc = true /\ valid_at now cc = true.
Proof. intros now H (A & B & C & D). apply collector_client_ca; assumption. Qed.

Lemma C18_exporter_dtls_lemma : forall now H, handshake_contract now H ->
  forall i t srv c,
    ei_tls i = Some t -> ei_proto i = "udp" -> init_exporting_process H i srv = ROk c ->
    c = ConnDTLS /\ ep_kind srv = KDtls /\
    exists sc, peer_cert srv = Some sc /\ chains_to (pool_of (et_ca t)) sc = true /\ valid_at now sc = true /\
      (et_server_name t <> "" -> is_ip H (et_server_name t) = false -> name_matches (et_server_name t) sc = true).
Proof. intros now H (A & B & C & D). apply exporter_dtls_verifies; assumption. Qed.

Lemma C18_never_plain_lemma : forall now H, handshake_contract now H ->
  (forall i srv c, ei_tls i <> None -> init_exporting_process H i srv = ROk c ->
     (exists v, c = ConnTLS v /\ ep_kind srv = KTls) \/ (c = ConnDTLS /\ ep_kind srv = KDtls) \/ c = ConnNil) /\
  (forall c cl k, ci_enc c = true -> collector_session H c cl = Some k ->
     (exists v, k = ConnTLS v /\ (c_tls_VersionTLS12 <= v)%N /\ ep_kind cl = KTls) \/ (k = ConnDTLS /\ ep_kind cl = KDtls)) /\
  (forall proto, exporter_transport true proto <> TPlain) /\
  (forall proto, collector_transport true proto <> TPlain).
Proof.
  intros now H (A & B & C & D). split; [|split; [|split]].
  - intros. eapply exporter_never_plain; eauto.
  - intros. eapply collector_never_plain; eauto.
  - exact exporter_decision_never_plain.
  - exact collector_decision_never_plain.
Qed.

Lemma C18_decision_lemma : forall H i srv c,
  init_exporting_process H i srv = ROk c ->
  conn_transport c = exporter_transport (match ei_tls i with Some _ => true | None => false end) (ei_proto i).
Proof. exact exporter_conn_decision. Qed.

Lemma C18_oracles_lemma : forall now H, handshake_contract now H ->
  (forall i srv, exporter_ok now (is_ip H) i srv (init_exporting_process H i srv) = true) /\
  (forall c cl, collector_ok now c cl (collector_session H c cl) = true).
Proof.
  intros now H (A & B & C & D). split.
  - intros. apply exporter_ok_holds; assumption.
  - intros. apply collector_ok_holds with (H := H); assumption.
Qed.

Lemma C18_validity_exact_lemma : forall now H, handshake_contract now H ->
  (forall i t srv sc,
     ei_tls i = Some t -> ei_proto i = "tcp" \/ ei_proto i = "udp" ->
     peer_cert srv = Some sc -> (now < c_nb sc \/ c_na sc < now)%Z ->
     forall c, init_exporting_process H i srv <> ROk c) /\
  (forall c p cl cc,
     ci_enc c = true -> ci_proto c = "tcp" -> ci_ca c = Some p ->
     peer_cert cl = Some cc -> (now < c_nb cc \/ c_na cc < now)%Z ->
     collector_session H c cl = None).
Proof.
  intros now H (A & B & C & D). split.
  - intros. eapply exporter_refuses_outside_validity; eauto.
  - intros. eapply collector_refuses_outside_validity with (H := H); eauto.
Qed.

Lemma C18_unusable_client_ca_lemma : forall c p,
  ci_enc c = true -> ci_proto c = "tcp" -> ci_ca c = Some p -> pool_of p = [] ->
  collector_listens c = false /\ forall H cl, collector_session H c cl = None.
Proof. exact collector_unusable_ca_refuses. Qed.

(* the instance the driver computes with *)
Lemma C18_reference_lemma : forall now,
  (forall i srv, exporter_ok now ref_is_ip i srv (init_exporting_process (ref_handshake now) i srv) = true) /\
  (forall c cl, collector_ok now c cl (collector_session (ref_handshake now) c cl) = true).
Proof. intro now. exact (C18_oracles_lemma now (ref_handshake now) (ref_meets_contract now)). Qed.
